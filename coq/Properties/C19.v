(* C19 - The language server answers correctly from the latest text of the right document.
   Statements only; proofs in Proofs/LspProofs.v (generic) and Proofs/LspConcrete.v (the server
   model the correspondence runs against lsp.Handle), Proofs/NavHover.v, NavRes.v, NavAnswer.v
   (what hover and go-to-definition answer at a position, against Spec/Navigation.v). Navigation is
   also judged on every run, at every position of every generated script, against a third,
   independent traversal (Corr/Judge.nav_ok). *)
From NS Require Import Base DocStore LspProofs Judge LspConcrete.
From NS Require Import Navigation CheckNoPanic NavHover NavRes NavAnswer Lexer Parser NestedParse.

(* for every request history over any number of documents - any interleaving of open, change,
   hover, definition and symbol requests - every response and every published diagnostic set of
   the server (which stores the analysis computed when the text arrived) equals what a fresh
   analysis of that document's latest text gives: never a stale version, never another document's.
   Generic in the analysis function and the answer functions. *)
Theorem C19_docstore_refinement :
  forall (Text Analysis Pos HoverAns DefAns SymAns Diags : Type)
         (analyse : Text -> Analysis) (hover_of : Analysis -> Pos -> HoverAns) (def_of : Analysis -> Pos -> DefAns)
         (syms_of : Analysis -> SymAns) (diags_of : Analysis -> Diags)
         (no_hover : HoverAns) (no_def : DefAns) (no_syms : SymAns)
         (rs : list (request Text Pos)),
  impl_run Text Analysis Pos HoverAns DefAns SymAns Diags analyse hover_of def_of syms_of diags_of no_hover no_def no_syms [] rs
  = spec_run Text Analysis Pos HoverAns DefAns SymAns Diags analyse hover_of def_of syms_of diags_of no_hover no_def no_syms [] rs.
Proof. exact docstore_refinement_initial. Qed.

(* the same for the concrete server model that is compared with lsp.Handle on every run *)
Theorem C19_server_refines_spec : forall texts h, lsp_impl texts [] h = lsp_spec texts [] h.
Proof. exact lsp_refinement_initial. Qed.

(* Second sentence of the property. Spec/Navigation.v lists the *targets* of a script - every use of
   a variable, with the declaration it refers to (the first declaration of that name among those
   that precede the use: a variable is not in scope in its own origin), and every called function
   name, with the context of the call - by a traversal that knows nothing of the checker or of the
   hover code. For every tree without nil nodes where each node's range encloses the ranges below
   it (what a parse without errors produces; evaluated on every document by the correspondence),
   every analysis of it and every position: if the position lies in exactly one target, the hover
   response is that variable with the type of its declaration / that built-in function with its
   signature (nothing when the name resolves to nothing), and the definition response is the exact
   range of the name in that declaration. *)
Theorem C19_navigation_exact : forall p pd perm cs txt q t,
  tree_safe p = true -> nested p = true -> check_program p pd perm = Ok cs -> at_pos p q = [t] ->
  handle_hover (mkdoc txt p cs) q = Ok (hover_of t) /\ handle_definition (mkdoc txt p cs) q = Ok (definition_of t).
Proof. exact navigation_exact. Qed.

(* the same for every text the reference parser accepts, with no hypothesis on the tree: tokens come
   in order (Proofs/LexSorted.v), so the ranges of every derivation are nested (Proofs/NestedParse.v) *)
Theorem C19_navigation_of_accepted_text : forall text p pd perm cs q t,
  parse_text text = Parsed p -> check_program p pd perm = Ok cs -> at_pos p q = [t] ->
  handle_hover (mkdoc text p cs) q = Ok (hover_of t) /\ handle_definition (mkdoc text p cs) q = Ok (definition_of t).
Proof.
  intros text p pd perm cs q t H. destruct (accepted_text_nested text p H) as [N S]. exact (navigation_exact p pd perm cs text q t S N).
Qed.

(* a position lying in SEVERAL targets - the end of one token is the start of the next, `[$a$b]`, and a
   range includes both its ends -: the answers are those of one of these targets (no two targets share a
   range: `distinct_ranges`, computable, evaluated on every error-free document of a run) *)
Theorem C19_navigation_at_shared_positions : forall p pd perm cs txt q,
  tree_safe p = true -> nested p = true -> distinct_ranges p = true -> check_program p pd perm = Ok cs -> at_pos p q <> [] ->
  exists t, In t (at_pos p q)
            /\ handle_hover (mkdoc txt p cs) q = Ok (hover_of t) /\ handle_definition (mkdoc txt p cs) q = Ok (definition_of t).
Proof. exact navigation_some. Qed.

(* "other positions yield nothing": no assumption on the ranges *)
Theorem C19_navigation_nothing_elsewhere : forall p pd perm cs txt q,
  tree_safe p = true -> check_program p pd perm = Ok cs -> at_pos p q = [] ->
  handle_hover (mkdoc txt p cs) q = Ok None /\ handle_definition (mkdoc txt p cs) q = Ok None.
Proof. exact navigation_nothing. Qed.

(* the two maps the server consults hold exactly the resolutions of the specification's targets *)
Theorem C19_resolutions_exact : forall p pd perm cs, check_program p pd perm = Ok cs ->
  cs_varres cs = rev (var_entries (targets p)) /\ cs_fnres cs = rev (fn_entries (targets p)).
Proof. exact check_program_resolutions. Qed.

Print Assumptions C19_docstore_refinement.
Print Assumptions C19_navigation_exact.
Print Assumptions C19_navigation_of_accepted_text.
Print Assumptions C19_navigation_at_shared_positions.
Print Assumptions C19_navigation_nothing_elsewhere.
Print Assumptions C19_resolutions_exact.
Print Assumptions C19_server_refines_spec.

Example C19_example :
  let t0 := (mkprogram [] [], @nil diag) in
  let t1 := (mkprogram [mkvardecl (R 0 7 0 16) (Some (R 0 14 0 16, "x")) (Some (R 0 7 0 13, "number")) None] [], @nil diag) in
  lsp_spec [t0; t1] [] [LOpen "a" 0; LOpen "b" 1; LChange "a" 1; LSyms "a"; LSyms "c"]
  = [LPublished "a" []; LPublished "b" [(mkdiag (R 0 14 0 16) (DUnusedVar "x"), OSevWarning)];
     LPublished "a" [(mkdiag (R 0 14 0 16) (DUnusedVar "x"), OSevWarning)];
     LSymbols [mksymbol "x" "number" (R 0 14 0 16)]; LSymbols []].
Proof. reflexivity. Qed.

(* non-vacuity of C19_navigation_exact on a parsed script: line 1 declares $m from balance(...),
   line 3 uses it; position (3,6) lies in the use, (1,17) in the callee name, (3,2) in neither *)
Example C19_navigation_example :
  let nl := String (Coq.Strings.Ascii.ascii_of_nat 10) EmptyString in
  match parse_text (cp ("vars {" ++ nl ++ "  monetary $m = balance(@a, USD/2)" ++ nl ++ "}" ++ nl ++ "send $m (source=@a destination=@b)")) with
  | Parsed p =>
      tree_safe p = true /\ nested p = true /\
      match check_default p [] with
      | Ok cs =>
          (exists d, at_pos p (mkpos 3 6) = [TVar (R 3 5 3 7) "m" (Some d)]
                     /\ handle_hover (mkdoc [] p cs) (mkpos 3 6) = Ok (Some (AVarHover (R 3 5 3 7) "m" "monetary"))
                     /\ handle_definition (mkdoc [] p cs) (mkpos 3 6) = Ok (Some (R 1 11 1 13)))
          /\ at_pos p (mkpos 1 17) = [TFn (R 1 16 1 23) "balance" CtxOrigin]
          /\ at_pos p (mkpos 3 2) = []
      | _ => False
      end
  | _ => False
  end.
Proof. vm_compute. repeat split; try reflexivity. eexists. repeat split; reflexivity. Qed.

(* non-vacuity of C19_navigation_at_shared_positions: in `[$a$b]` the position (1,7) is the end of `$a`
   and the start of `$b`; it lies in two targets and the answer is that of the second *)
Example C19_shared_position_example :
  let nl := String (Coq.Strings.Ascii.ascii_of_nat 10) EmptyString in
  match parse_text (cp ("vars { asset $a number $b }" ++ nl ++ "send [$a$b] (source=@a destination=@b)")) with
  | Parsed p =>
      tree_safe p = true /\ nested p = true /\ distinct_ranges p = true /\
      match check_default p [] with
      | Ok cs => List.length (at_pos p (mkpos 1 8)) = 2%nat
                 /\ handle_hover (mkdoc [] p cs) (mkpos 1 8) = Ok (Some (AVarHover (R 1 8 1 10) "b" "number"))
      | _ => False
      end
  | _ => False
  end.
Proof. vm_compute. repeat split; reflexivity. Qed.
