(* C19 - The language server answers correctly from the latest text of the right document.
   Statements only; proofs in Proofs/LspProofs.v (generic) and Proofs/LspConcrete.v (the server
   model the correspondence runs against lsp.Handle). Navigation correctness (hover / definition at
   every position of every generated script) is judged on every run against the independent
   traversal of Spec/Names.v (Corr/Judge.nav_ok); the hover model itself is proved panic-free (C18). *)
From NS Require Import Base DocStore LspProofs Judge LspConcrete.

(* for every request history over any number of documents - any interleaving of open, change,
   hover, definition and symbol requests - every response and every published diagnostic set of
   the server (which stores the analysis computed when the text arrived) equals what a fresh
   analysis of that document's latest text gives: never a stale version, never another document's.
   Generic in the analysis function and the answer functions. *)
Theorem C19_docstore_refinement :
  forall (Text Analysis Pos HoverAns DefAns SymAns Diags : Type)
         (analyse : Text -> Analysis) (hover_of : Analysis -> Pos -> HoverAns) (def_of : Analysis -> Pos -> DefAns)
         (syms_of : Analysis -> SymAns) (diags_of : Analysis -> Diags)
         (no_hover : HoverAns) (no_def : DefAns) (no_syms : SymAns)
         (rs : list (request Text Pos)),
  impl_run Text Analysis Pos HoverAns DefAns SymAns Diags analyse hover_of def_of syms_of diags_of no_hover no_def no_syms [] rs
  = spec_run Text Analysis Pos HoverAns DefAns SymAns Diags analyse hover_of def_of syms_of diags_of no_hover no_def no_syms [] rs.
Proof. exact docstore_refinement_initial. Qed.

(* the same for the concrete server model that is compared with lsp.Handle on every run *)
Theorem C19_server_refines_spec : forall texts h, lsp_impl texts [] h = lsp_spec texts [] h.
Proof. exact lsp_refinement_initial. Qed.

Print Assumptions C19_docstore_refinement.
Print Assumptions C19_server_refines_spec.

Example C19_example :
  let t0 := (mkprogram [] [], @nil diag) in
  let t1 := (mkprogram [mkvardecl (R 0 7 0 16) (Some (R 0 14 0 16, "x")) (Some (R 0 7 0 13, "number")) None] [], @nil diag) in
  lsp_spec [t0; t1] [] [LOpen "a" 0; LOpen "b" 1; LChange "a" 1; LSyms "a"; LSyms "c"]
  = [LPublished "a" []; LPublished "b" [(mkdiag (R 0 14 0 16) (DUnusedVar "x"), OSevWarning)];
     LPublished "a" [(mkdiag (R 0 14 0 16) (DUnusedVar "x"), OSevWarning)];
     LSymbols [mksymbol "x" "number" (R 0 14 0 16)]; LSymbols []].
Proof. reflexivity. Qed.
