(* C20 - The CLI reports exactly what the library computes (PARTIAL: process level).
   Statements only; proofs in Proofs/CliProofs.v, about the decision logic of cmd/check.go and
   cmd/run.go (Model/Cli.v). Cobra, encoding/json, file reading, stdout/stderr and process exit
   codes are glue that no model can exhibit: they are exercised on every run by executing the
   numscript binary built from the working tree through all three input channels and comparing its
   exit status and decoded output with the library called in-process. *)
From NS Require Import Cli CliProofs.

Theorem C20_check_exit_iff_error : forall ds,
  cli_check_exit ds <> 0 <-> exists d, In d ds /\ severity_of (d_kind d) = SevError.
Proof. exact check_exit_iff_error. Qed.

Theorem C20_check_prints_every_diagnostic : forall ds,
  List.length (cli_check_printed ds) = List.length ds /\
  forall d, In d ds -> In (pline (rstart (d_range d)), pchar (rstart (d_range d)), severity_of (d_kind d)) (cli_check_printed ds).
Proof. exact check_prints_every_diagnostic. Qed.

Theorem C20_inputs_channel_independent : forall parse flag s v m b,
  cli_run parse (ChRaw (mkopts s v m b)) flag = cli_run parse (ChStdin (mkopts s v m b)) flag /\
  cli_run parse (ChRaw (mkopts s v m b)) flag = cli_run parse (ChFiles s v m b) flag.
Proof. exact inputs_channel_independent. Qed.

Theorem C20_run_reports_library_result : forall parse c flag p,
  parse (io_script (channel_opts c)) = Some p ->
  let o := channel_opts c in
  let lib := run_program p (io_vars o) (fun _ call => match call with CallBalances _ => AnsBalances (io_bal o) | CallMeta _ _ => AnsMeta (io_meta o) end) flag in
  match lib with
  | Ok x => cli_run parse c flag = CliPrinted x
  | Err e => cli_run parse c flag = CliFailed e
  | Panic _ => cli_run parse c flag = CliPanic
  end.
Proof. exact run_reports_library_result. Qed.

Print Assumptions C20_check_exit_iff_error.
Print Assumptions C20_run_reports_library_result.

Example C20_example :
  cli_check_exit [mkdiag norange (DUnusedVar "x")] = 0 /\ cli_check_exit [mkdiag norange (DUnusedVar "x"); mkdiag norange DDivByZero] = 1.
Proof. split; reflexivity. Qed.
