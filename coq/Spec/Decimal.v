(* C13: what the text of a portion denotes, in base ten, written without reference to the parser
   model: a digit string denotes sum d_i 10^(k-i). *)
From Coq Require Import Ascii QArith.
From NS Require Import Base.

Definition digit_val (c : ascii) : option Z :=
  let n := Z.of_nat (nat_of_ascii c) in if (48 <=? n) && (n <=? 57) then Some (n - 48) else None.

Fixpoint digits_val_acc (s : string) (acc : Z) : option Z :=
  match s with
  | EmptyString => Some acc
  | String c s' => match digit_val c with Some d => digits_val_acc s' (10 * acc + d) | None => None end
  end.

(* value of a non-empty digit string (leading zeros allowed) *)
Definition digits_val (s : string) : option Z :=
  match s with EmptyString => None | _ => digits_val_acc s 0 end.

Fixpoint pow10z (n : nat) : Z := match n with O => 1 | S n' => 10 * pow10z n' end.

Fixpoint split_at_char (sep : ascii) (s : string) : string * option string :=
  match s with
  | EmptyString => (EmptyString, None)
  | String c s' =>
      if Ascii.eqb c sep then (EmptyString, Some s')
      else let '(a, b) := split_at_char sep s' in (String c a, b)
  end.

(* at most one space before / after the slash *)
Fixpoint strip_space_r (s : string) : string :=
  match s with
  | EmptyString => EmptyString
  | String c s' => match s' with
                   | String " "%char EmptyString => String c EmptyString
                   | _ => String c (strip_space_r s')
                   end
  end.
Definition strip_space_l (s : string) : string :=
  match s with String " "%char s' => s' | _ => s end.

Definition remove_last (s : string) : string := string_of_list_ascii (rev (tl (rev (list_ascii_of_string s)))).
Definition ends_with_percent (s : string) : bool :=
  match rev (list_ascii_of_string s) with "%"%char :: _ => true | _ => false end.

(* "d..d%" or "d..d.e..e%": dec(d e) / 10^(j+2);  "n/d", "n /d", "n/ d", "n / d": n / d *)
Definition portion_denotes (text : string) : option (Z * Z) :=          (* numerator, denominator *)
  if ends_with_percent text then
    let body := remove_last text in
    match split_at_char "."%char body with
    | (i, None) => match digits_val i with Some n => Some (n, 100) | None => None end
    | (i, Some f) =>
        match digits_val i, digits_val f with
        | Some ni, Some nf => Some (ni * pow10z (String.length f) + nf, 100 * pow10z (String.length f))
        | _, _ => None
        end
    end
  else
    match split_at_char "/"%char text with
    | (a, Some b) =>
        match digits_val (strip_space_r a), digits_val (strip_space_l b) with
        | Some n, Some d => Some (n, d)
        | _, _ => None
        end
    | _ => None
    end.
