(* C05: what a destination expression means, on evaluated destination trees. Independent of the
   interpreter model (only Spec/Shares for allotments). *)
From NS Require Import Base Shares.

Inductive edest :=
| EDAccount (a : string)
| EDInorder (clauses : list (Z * ekod)) (remaining : ekod)    (* caps already evaluated *)
| EDAllot (items : list (clause * ekod))
with ekod :=
| EKept
| ETo (d : edest).

Definition KEPT := "<kept>".

(* the credits of a destination that receives [n], in order; kept amounts are credited to the KEPT marker *)
Fixpoint distribute (d : edest) (n : Z) {struct d} : option (list (string * Z)) :=
  match d with
  | EDAccount a => Some [(a, n)]
  | EDInorder clauses rem =>
      (fix go (l : list (Z * ekod)) (left : Z) : option (list (string * Z)) :=
         match l with
         | [] => if left =? 0 then Some [] else distribute_kod rem left
         | (cap, k) :: l' =>
             let amt := Z.max 0 (Z.min cap left) in        (* a negative cap counts as zero *)
             if amt =? 0 then go l' left                   (* a clause that receives nothing is skipped *)
             else
             match distribute_kod k amt, go l' (left - amt) with
             | Some x, Some y => Some (x ++ y)
             | _, _ => None
             end
         end) clauses n
  | EDAllot items =>
      match denoted_portions (map fst items) with
      | None => None
      | Some ps =>
          (fix go (l : list (clause * ekod)) (shares : list Z) : option (list (string * Z)) :=
             match l, shares with
             | [], _ => Some []
             | (_, k) :: l', s :: shares' =>
                 match distribute_kod k s, go l' shares' with
                 | Some x, Some y => Some (x ++ y)
                 | _, _ => None
                 end
             | _ :: _, [] => None
             end) items (spec_shares n ps)
      end
  end
with distribute_kod (k : ekod) (n : Z) {struct k} : option (list (string * Z)) :=
  match k with
  | EKept => Some [(KEPT, n)]
  | ETo d => distribute d n
  end.

Definition credited_to (l : list (string * Z)) (a : string) : Z :=
  zsum (map (fun e : string * Z => if String.eqb (fst e) a then snd e else 0) l).
Definition total (l : list (string * Z)) : Z := zsum (map snd l).
