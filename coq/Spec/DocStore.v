(* C19: what a language server must answer, as the simplest possible specification: the store maps
   each URI to the latest text opened or changed on it; every answer is the answer of a fresh
   analysis of that text. Parametric in the analysis and the answer functions. *)
From NS Require Import Base.

Section DocStore.
Variables Text Analysis Pos HoverAns DefAns SymAns Diags : Type.
Variable analyse : Text -> Analysis.
Variable hover_of : Analysis -> Pos -> HoverAns.
Variable def_of : Analysis -> Pos -> DefAns.
Variable syms_of : Analysis -> SymAns.
Variable diags_of : Analysis -> Diags.
Variables no_hover : HoverAns.
Variable no_def : DefAns.
Variable no_syms : SymAns.

Inductive request :=
| ROpen (uri : string) (t : Text)
| RChange (uri : string) (t : Text)
| RHover (uri : string) (p : Pos)
| RDefinition (uri : string) (p : Pos)
| RSymbols (uri : string)
| ROther.

Inductive response :=
| Published (uri : string) (d : Diags)        (* notification written on open / change *)
| HoverResp (h : HoverAns)
| DefResp (d : DefAns)
| SymResp (s : SymAns)
| NoResp.

(* the specification's state: latest text per URI *)
Definition spec_state := list (string * Text).

Definition spec_step (st : spec_state) (r : request) : spec_state * response :=
  match r with
  | ROpen u t | RChange u t => (aset u t st, Published u (diags_of (analyse t)))
  | RHover u p => (st, HoverResp (match alookup u st with Some t => hover_of (analyse t) p | None => no_hover end))
  | RDefinition u p => (st, DefResp (match alookup u st with Some t => def_of (analyse t) p | None => no_def end))
  | RSymbols u => (st, SymResp (match alookup u st with Some t => syms_of (analyse t) | None => no_syms end))
  | ROther => (st, NoResp)
  end.

Fixpoint spec_run (st : spec_state) (rs : list request) : list response :=
  match rs with
  | [] => []
  | r :: rs' => let '(st', out) := spec_step st r in out :: spec_run st' rs'
  end.

(* the implementation's shape: the store keeps the text AND the analysis computed when it arrived *)
Definition impl_state := list (string * (Text * Analysis)).

Definition impl_step (st : impl_state) (r : request) : impl_state * response :=
  match r with
  | ROpen u t | RChange u t => let a := analyse t in (aset u (t, a) st, Published u (diags_of a))
  | RHover u p => (st, HoverResp (match alookup u st with Some d => hover_of (snd d) p | None => no_hover end))
  | RDefinition u p => (st, DefResp (match alookup u st with Some d => def_of (snd d) p | None => no_def end))
  | RSymbols u => (st, SymResp (match alookup u st with Some d => syms_of (snd d) | None => no_syms end))
  | ROther => (st, NoResp)
  end.

Fixpoint impl_run (st : impl_state) (rs : list request) : list response :=
  match rs with
  | [] => []
  | r :: rs' => let '(st', out) := impl_step st r in out :: impl_run st' rs'
  end.
End DocStore.
