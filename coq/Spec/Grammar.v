(* C15: Numscript.g4 as a declarative relation between token sequences and trees, with the ranges
   a tree node must carry: first character of its first token to just past its last token. The
   relation says nothing about HOW a parser decides; the reference parser is proved sound for it
   (Proofs/ParserSound.v): whatever it accepts, the tree it returns is a derivation of exactly the
   tokens it consumed. Literal values are those of the conversions specified in Spec/Decimal.v
   (portions) and base ten (numbers). *)
From NS Require Export Parser.

Definition is_kind (k : tkind) (t : token) : Prop := tk_is k t = true.

Inductive DAtom : list token -> expr -> Prop :=
| DA_var t : is_kind TVarName t -> DAtom [t] (EVar (tok_range t) (drop_first (text_of t)))
| DA_asset t : is_kind TAsset t -> DAtom [t] (EAsset (tok_range t) (text_of t))
| DA_string t : is_kind TString t -> DAtom [t] (EString (tok_range t) (drop_last (drop_first (text_of t))))
| DA_account t : is_kind TAccount t -> DAtom [t] (EAccount (tok_range t) (drop_first (text_of t)))
| DA_number t e ok : is_kind TNumber t -> number_of_token t = Some (e, ok) -> DAtom [t] e
| DA_portion t e : is_kind TRatio t \/ is_kind TPercent t -> ratio_of_token t = Some e -> DAtom [t] e
| DA_monetary lb ta a tn n rb :
    is_kind TLBracket lb -> DExpr ta a -> DExpr tn n -> is_kind TRBracket rb ->
    DAtom (lb :: ta ++ tn ++ [rb]) (EMonetary (span (tok_range lb) (tok_range rb)) a n)
with DExpr : list token -> expr -> Prop :=
| DE_atom ts e : DAtom ts e -> DExpr ts e
| DE_plus tl l op tr r :       (* left associative: the left operand is any expression, the right one an atom *)
    DExpr tl l -> is_kind TPlus op -> DAtom tr r ->
    DExpr (tl ++ op :: tr) (EInfix (span (expr_rng l) (expr_rng r)) OpPlus l r)
| DE_minus tl l op tr r :
    DExpr tl l -> is_kind TMinus op -> DAtom tr r ->
    DExpr (tl ++ op :: tr) (EInfix (span (expr_rng l) (expr_rng r)) OpMinus l r).

Inductive DAllotment : token -> allot -> Prop :=
| DAl_portion t n d : is_kind TRatio t \/ is_kind TPercent t -> portion_literal (text_of t) = Some (n, d) -> DAllotment t (ARatio (tok_range t) n d)
| DAl_var t : is_kind TVarName t -> DAllotment t (AVar (tok_range t) (drop_first (text_of t)))
| DAl_remaining t : is_kind TRemaining t -> DAllotment t (ARemaining (tok_range t)).

Inductive DSource : list token -> source -> Prop :=
| DS_account ts e : DExpr ts e -> DSource ts (SAccount e)
| DS_unbounded ts e al u o :
    DExpr ts e -> is_kind TAllowing al -> is_kind TUnbounded u -> is_kind TOverdraft o ->
    DSource (ts ++ [al; u; o]) (SOverdraft (span (expr_rng e) (tok_range o)) e None)
| DS_bounded ts e al o up to tb b :
    DExpr ts e -> is_kind TAllowing al -> is_kind TOverdraft o -> is_kind TUp up -> is_kind TTo to -> DExpr tb b ->
    DSource (ts ++ al :: o :: up :: to :: tb) (SOverdraft (span (expr_rng e) (expr_rng b)) e (Some b))
| DS_capped mx tc cap fr tf from :
    is_kind TMax mx -> DExpr tc cap -> is_kind TFrom fr -> DSource tf from ->
    DSource (mx :: tc ++ fr :: tf) (SCapped (span (tok_range mx) (source_rng from)) from cap)
| DS_inorder lb tss l rb :
    is_kind TLBrace lb -> DSources tss l -> is_kind TRBrace rb ->
    DSource (lb :: tss ++ [rb]) (SInorder (span (tok_range lb) (tok_range rb)) l)
| DS_allot lb tcs items rb :
    is_kind TLBrace lb -> DSrcClauses tcs items -> items <> [] -> is_kind TRBrace rb ->
    DSource (lb :: tcs ++ [rb]) (SAllot (span (tok_range lb) (tok_range rb)) items)
with DSources : list token -> list source -> Prop :=
| DSs_nil : DSources [] []
| DSs_cons t1 s t2 l : DSource t1 s -> DSources t2 l -> DSources (t1 ++ t2) (s :: l)
with DSrcClauses : list token -> list (range * allot * source) -> Prop :=
| DSc_nil : DSrcClauses [] []
| DSc_cons a al fr ts s t2 l :
    DAllotment a al -> is_kind TFrom fr -> DSource ts s -> DSrcClauses t2 l ->
    DSrcClauses (a :: fr :: ts ++ t2) ((span (tok_range a) (source_rng s), al, s) :: l).

Inductive DDest : list token -> dest -> Prop :=
| DD_account ts e : DExpr ts e -> DDest ts (DAccount e)
| DD_inorder lb tcl cl rm tk rem rb :
    (* `{ remaining ... }` with no `max` clause is read by the first alternative, destAllotment (an
       allotment whose only portion is `remaining`): destInorder has at least one clause *)
    is_kind TLBrace lb -> DInClauses tcl cl -> cl <> [] -> is_kind TRemaining rm -> DKod tk rem -> is_kind TRBrace rb ->
    DDest (lb :: tcl ++ rm :: tk ++ [rb]) (DInorder (span (tok_range lb) (tok_range rb)) cl rem)
| DD_allot lb tcs items rb :
    is_kind TLBrace lb -> DDstClauses tcs items -> items <> [] -> is_kind TRBrace rb ->
    DDest (lb :: tcs ++ [rb]) (DAllot (span (tok_range lb) (tok_range rb)) items)
with DKod : list token -> kod -> Prop :=
| DK_kept t : is_kind TKept t -> DKod [t] (KKept (tok_range t))
| DK_to t ts d : is_kind TTo t -> DDest ts d -> DKod (t :: ts) (KTo d)
with DInClauses : list token -> list (range * expr * kod) -> Prop :=
| DIc_nil : DInClauses [] []
| DIc_cons mx tc cap tk k t2 l :
    is_kind TMax mx -> DExpr tc cap -> DKod tk k -> DInClauses t2 l ->
    DInClauses (mx :: tc ++ tk ++ t2) ((span (tok_range mx) (kod_end k norange), cap, k) :: l)
with DDstClauses : list token -> list (range * allot * kod) -> Prop :=
| DDc_nil : DDstClauses [] []
| DDc_cons a al tk k t2 l :
    DAllotment a al -> DKod tk k -> DDstClauses t2 l ->
    DDstClauses (a :: tk ++ t2) ((span (tok_range a) (kod_end k norange), al, k) :: l).

Inductive DSent : list token -> sent -> Prop :=
| DSv_lit ts e : DExpr ts e -> DSent ts (SVLit (expr_rng e) e)
| DSv_all lb ta a st rb :
    is_kind TLBracket lb -> DExpr ta a -> is_kind TStar st -> is_kind TRBracket rb ->
    DSent (lb :: ta ++ [st; rb]) (SVAll (span (tok_range lb) (tok_range rb)) a).

Inductive DArgs : list token -> list expr -> Prop :=
| DAr_one ts e : DExpr ts e -> DArgs ts [e]
| DAr_cons ts e c t2 l : DExpr ts e -> is_kind TComma c -> DArgs t2 l -> DArgs (ts ++ c :: t2) (e :: l).

Inductive DFnCall : list token -> fncall -> Prop :=
| DF_noargs name lp rp :
    is_kind TIdentifier name \/ is_kind TOverdraft name -> is_kind TLParens lp -> is_kind TRParens rp ->
    DFnCall [name; lp; rp] (mkfncall (span (tok_range name) (tok_range rp)) (tok_range name) (text_of name) [])
| DF_args name lp ta args rp :
    is_kind TIdentifier name \/ is_kind TOverdraft name -> is_kind TLParens lp -> DArgs ta args -> is_kind TRParens rp ->
    DFnCall (name :: lp :: ta ++ [rp]) (mkfncall (span (tok_range name) (tok_range rp)) (tok_range name) (text_of name) args).

Inductive DStmt : list token -> stmt -> Prop :=
| DSt_send sd tsv sv lp so e1 tsrc src de e2 tdst dst rp :
    is_kind TSend sd -> DSent tsv sv -> is_kind TLParens lp -> is_kind TSource so -> is_kind TEq e1 -> DSource tsrc src ->
    is_kind TDestination de -> is_kind TEq e2 -> DDest tdst dst -> is_kind TRParens rp ->
    DStmt (sd :: tsv ++ lp :: so :: e1 :: tsrc ++ de :: e2 :: tdst ++ [rp]) (StSend (span (tok_range sd) (tok_range rp)) sv src dst)
| DSt_save sa tsv sv fr ta a :
    is_kind TSave sa -> DSent tsv sv -> is_kind TFrom fr -> DExpr ta a ->
    DStmt (sa :: tsv ++ fr :: ta) (StSave (span (tok_range sa) (expr_rng a)) sv a)
| DSt_call ts f : DFnCall ts f -> DStmt ts (StFnCall f).

Inductive DStmts : list token -> list stmt -> Prop :=
| DSts_nil : DStmts [] []
| DSts_cons t1 s t2 l : DStmt t1 s -> DStmts t2 l -> DStmts (t1 ++ t2) (s :: l).

Inductive DVarDecls : list token -> list vardecl -> Prop :=
| DV_nil : DVarDecls [] []
| DV_plain ty name t2 l :
    is_kind TIdentifier ty -> is_kind TVarName name -> DVarDecls t2 l ->
    DVarDecls (ty :: name :: t2)
      (mkvardecl (span (tok_range ty) (tok_range name)) (Some (tok_range name, drop_first (text_of name))) (Some (tok_range ty, text_of ty)) None :: l)
| DV_origin ty name eq tf f t2 l :
    is_kind TIdentifier ty -> is_kind TVarName name -> is_kind TEq eq -> DFnCall tf f -> DVarDecls t2 l ->
    DVarDecls (ty :: name :: eq :: tf ++ t2)
      (mkvardecl (span (tok_range ty) (fc_range f)) (Some (tok_range name, drop_first (text_of name))) (Some (tok_range ty, text_of ty)) (Some f) :: l).

Inductive DProgram : list token -> program -> Prop :=
| DP_vars v lb td ds rb ts ss :
    is_kind TVars v -> is_kind TLBrace lb -> DVarDecls td ds -> is_kind TRBrace rb -> DStmts ts ss ->
    DProgram (v :: lb :: td ++ rb :: ts) (mkprogram ds ss)
| DP_novars ts ss : DStmts ts ss -> DProgram ts (mkprogram [] ss).
