(* C04 / C03: what a source expression may give, on evaluated source trees: the left-to-right
   greedy draw. Independent of the interpreter model (only Spec/Shares for allotments). *)
From NS Require Import Base Shares.

Inductive esrc :=
| ESAccount (a : string) (overdraft : option Z)      (* None: unbounded (also @world) *)
| ESInorder (l : list esrc)
| ESAllot (items : list (clause * esrc))
| ESCapped (cap : Z) (s : esrc).

(* what each account has given so far in this statement *)
Definition pulled := list (string * Z).
Definition pulled_of (p : pulled) (a : string) : Z :=
  zsum (map (fun e : string * Z => if String.eqb (fst e) a then snd e else 0) p).

Inductive draw_result :=
| Drawn (given : Z) (p : pulled)
| Short (needed available : Z)      (* an exact amount was required and the funds are missing *)
| BadAllotment.

(* bal: visible balance of each account for the asset of the statement *)
Section Greedy.
Variable bal : string -> Z.

Definition leaf_gives (a : string) (od : option Z) (need : Z) (p : pulled) : Z :=
  match od with
  | None => need
  | Some od => Z.min need (Z.max 0 (bal a + od - pulled_of p a))
  end.

Fixpoint draw (s : esrc) (need : Z) (p : pulled) {struct s} : draw_result :=
  match s with
  | ESAccount a od => let g := leaf_gives a od need p in Drawn g (if g =? 0 then p else p ++ [(a, g)])
  | ESInorder l =>
      (fix go (l : list esrc) (left : Z) (p : pulled) : draw_result :=
         match l with
         | [] => Drawn (need - left) p
         | s :: l' => match draw s left p with
                      | Drawn g p' => go l' (left - g) p'
                      | r => r
                      end
         end) l need p
  | ESCapped cap s => draw s (Z.max 0 (Z.min need cap)) p
  | ESAllot items =>
      match denoted_portions (map fst items) with
      | None => BadAllotment
      | Some ps =>
          (fix go (l : list (clause * esrc)) (shares : list Z) (p : pulled) : draw_result :=
             match l, shares with
             | [], _ => Drawn need p
             | (_, s) :: l', sh :: shares' =>
                 match draw s sh p with
                 | Drawn g p' => if g =? sh then go l' shares' p' else Short sh g
                 | r => r
                 end
             | _ :: _, [] => BadAllotment
             end) items (spec_shares need ps) p
      end
  end.

(* a fixed-amount send *)
Definition draw_exact (s : esrc) (n : Z) : draw_result :=
  match draw s n [] with
  | Drawn g p => if g =? n then Drawn g p else Short n g
  | r => r
  end.

(* send-all: every bounded leaf is drained to its limit; unbounded leaves and allotments are
   rejected unless a cap encloses them (then the capped part is an ordinary draw) *)
Inductive drain_result :=
| Drained (given : Z) (p : pulled)
| Rejected            (* unbounded source or allotment outside a cap *)
| DrainShort (needed available : Z)
| DrainBadAllotment.

Fixpoint drain (s : esrc) (p : pulled) {struct s} : drain_result :=
  match s with
  | ESAccount a None => Rejected
  | ESAccount a (Some od) =>
      let g := Z.max 0 (bal a + od - pulled_of p a) in Drained g (if g =? 0 then p else p ++ [(a, g)])
  | ESInorder l =>
      (fix go (l : list esrc) (tot : Z) (p : pulled) : drain_result :=
         match l with
         | [] => Drained tot p
         | s :: l' => match drain s p with
                      | Drained g p' => go l' (tot + g) p'
                      | r => r
                      end
         end) l 0 p
  | ESCapped cap s =>
      match draw s (Z.max 0 cap) p with
      | Drawn g p' => Drained g p'
      | Short a b => DrainShort a b
      | BadAllotment => DrainBadAllotment
      end
  | ESAllot _ => Rejected
  end.
End Greedy.
