(* Ledger-level notions used by C01, C02, C08, C09: replaying postings on starting balances.
   Independent of the interpreter model. *)
From NS Require Import Base.

Definition ledger := string -> string -> Z.           (* account -> asset -> balance *)

Definition ledger_of (b : balances) : ledger := fun a c => bget b a c.

Definition apply1 (L : ledger) (p : posting) : ledger :=
  fun a c =>
    L a c
    - (if (String.eqb a (psrc p) && String.eqb c (passet p))%bool then pamt p else 0)
    + (if (String.eqb a (pdst p) && String.eqb c (passet p))%bool then pamt p else 0).

Definition replay (L : ledger) (ps : list posting) : ledger := fold_left apply1 ps L.

(* all non-empty prefixes, plus the empty one *)
Fixpoint prefixes {A} (l : list A) : list (list A) :=
  match l with
  | [] => [[]]
  | x :: l' => [] :: map (cons x) (prefixes l')
  end.

(* total debited from / credited to an account for an asset by a list of postings *)
Definition debits (ps : list posting) (a c : string) : Z :=
  zsum (map (fun p => if (String.eqb (psrc p) a && String.eqb (passet p) c)%bool then pamt p else 0) ps).
Definition credits (ps : list posting) (a c : string) : Z :=
  zsum (map (fun p => if (String.eqb (pdst p) a && String.eqb (passet p) c)%bool then pamt p else 0) ps).

(* the visible balance after `save`: n = None stands for `*` *)
Definition save_visible (v : Z) (n : option Z) : Z :=
  match n with
  | None => Z.min v 0
  | Some n => if v <=? 0 then v else Z.max 0 (v - n)
  end.
