(* C16: which variable diagnostics a script deserves, by independent traversals of the tree in
   program order (no reference to the checker model). *)
From NS Require Import Syntax.

Definition use := (string * range)%type.

Fixpoint uses_expr (e : expr) : list use :=
  match e with
  | EVar r n => [(n, r)]
  | EMonetary _ a b => uses_expr a ++ uses_expr b
  | EInfix _ _ l r => uses_expr l ++ uses_expr r
  | _ => []
  end.

Definition uses_allot (a : allot) : list use := match a with AVar r n => [(n, r)] | _ => [] end.

Fixpoint uses_source (s : source) : list use :=
  match s with
  | SNil => []
  | SAccount e => uses_expr e
  | SInorder _ l => flat_map uses_source l
  | SAllot _ items => flat_map (fun it : range * allot * source => uses_allot (snd (fst it)) ++ uses_source (snd it)) items
  | SCapped _ from cap => uses_expr cap ++ uses_source from
  | SOverdraft _ addr b => uses_expr addr ++ match b with Some e => uses_expr e | None => [] end
  end.

Fixpoint uses_dest (d : dest) : list use :=
  match d with
  | DNil => []
  | DAccount e => uses_expr e
  | DInorder _ cl rem => flat_map (fun c : range * expr * kod => uses_expr (snd (fst c)) ++ uses_kod (snd c)) cl ++ uses_kod rem
  | DAllot _ items => flat_map (fun it : range * allot * kod => uses_allot (snd (fst it)) ++ uses_kod (snd it)) items
  end
with uses_kod (k : kod) : list use :=
  match k with KTo d => uses_dest d | _ => [] end.

Definition uses_sent (sv : sent) : list use :=
  match sv with SVLit _ e => uses_expr e | SVAll _ e => uses_expr e | SVNil => [] end.

Definition uses_fncall (f : fncall) : list use := flat_map uses_expr (fc_args f).

Definition uses_stmt (s : stmt) : list use :=
  match s with
  | StFnCall f => uses_fncall f
  | StSend _ sv src dst => uses_sent sv ++ uses_source src ++ uses_dest dst
  | StSave _ sv a => uses_sent sv ++ uses_expr a
  | _ => []
  end.

(* the events of a script in program order: the arguments of a declaration's origin are looked at
   before the declaration comes into effect (the interpreter evaluates the origin before the
   variable exists: a variable is not in scope in its own origin) *)
Inductive event := Declare (name : string) (r : range) | Use (name : string) (r : range).

Definition events_decl (d : vardecl) : list event :=
  match vd_origin d with Some f => map (fun u : use => Use (fst u) (snd u)) (uses_fncall f) | None => [] end
  ++ match vd_name d with Some (r, n) => [Declare n r] | None => [] end.

Definition events (p : program) : list event :=
  flat_map events_decl (p_vars p) ++ map (fun u : use => Use (fst u) (snd u)) (flat_map uses_stmt (p_stmts p)).

(* uses of a name that is not declared at that point *)
Fixpoint unbound_uses (declared : list string) (es : list event) : list use :=
  match es with
  | [] => []
  | Declare n _ :: es' => unbound_uses (n :: declared) es'
  | Use n r :: es' => (if mem_str n declared then [] else [(n, r)]) ++ unbound_uses declared es'
  end.

(* repeated declarations, at the repeated name *)
Fixpoint duplicate_decls (declared : list string) (es : list event) : list use :=
  match es with
  | [] => []
  | Declare n r :: es' => (if mem_str n declared then [(n, r)] else []) ++ duplicate_decls (n :: declared) es'
  | Use _ _ :: es' => duplicate_decls declared es'
  end.

(* first declarations that no later event uses *)
Fixpoint used_later (n : string) (es : list event) : bool :=
  match es with
  | [] => false
  | Use m _ :: es' => String.eqb n m || used_later n es'
  | Declare _ _ :: es' => used_later n es'
  end.

Fixpoint unused_decls (declared : list string) (es : list event) : list use :=
  match es with
  | [] => []
  | Declare n r :: es' =>
      (if mem_str n declared || used_later n es' then [] else [(n, r)]) ++ unused_decls (n :: declared) es'
  | Use _ _ :: es' => unused_decls declared es'
  end.
