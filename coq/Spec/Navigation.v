(* C19, second sentence: what hover and go-to-definition must answer at a position, read off the
   tree with no reference to the checker's state or to the hover traversal.

   A *target* is a place of the script that answers: a use of a variable (with the declaration it
   refers to: the first declaration of that name among the declarations that precede the use - all
   of them for a use in a statement, the earlier ones for a use in the origin of a declaration),
   or the name of a called function (with the context it is called in). *)
From NS Require Import Syntax Names Check Hover.

Definition named (n : string) (d : vardecl) : bool :=
  match vd_name d with Some (_, m) => String.eqb n m | None => false end.
Definition first_decl (n : string) (ds : list vardecl) : option vardecl := find (named n) ds.

Inductive target :=
| TVar (r : range) (name : string) (decl : option vardecl)
| TFn (r : range) (name : string) (ctx : fn_context).

Definition trange (t : target) : range := match t with TVar r _ _ | TFn r _ _ => r end.

Definition var_targets (before : list vardecl) (us : list use) : list target :=
  map (fun u : use => TVar (snd u) (fst u) (first_decl (fst u) before)) us.

Definition fncall_targets (ctx : fn_context) (before : list vardecl) (f : fncall) : list target :=
  TFn (fc_caller_range f) (fc_caller f) ctx :: var_targets before (uses_fncall f).

Fixpoint decl_targets (before ds : list vardecl) : list target :=
  match ds with
  | [] => []
  | d :: ds' =>
      match vd_origin d with Some f => fncall_targets CtxOrigin before f | None => [] end
      ++ decl_targets (before ++ [d]) ds'
  end.

Definition stmt_targets (vars : list vardecl) (st : stmt) : list target :=
  match st with
  | StFnCall f => fncall_targets CtxStatement vars f
  | _ => var_targets vars (uses_stmt st)
  end.

Definition targets (p : program) : list target :=
  decl_targets [] (p_vars p) ++ flat_map (stmt_targets (p_vars p)) (p_stmts p).

(* the targets a position lies in (ranges include both ends, as Range.Contains does) *)
Definition at_pos (p : program) (q : pos) : list target := filter (fun t => contains (trange t) q) (targets p).

(* no two targets share a range (each is a token of its own) *)
Definition distinct_ranges (p : program) : bool :=
  (fix go (l : list range) := match l with [] => true | r :: l' => negb (existsb (range_eqb r) l') && go l' end)
    (map trange (targets p)).

Definition ctx_eqb (a b : fn_context) : bool :=
  match a, b with CtxStatement, CtxStatement | CtxOrigin, CtxOrigin => true | _, _ => false end.

(* the answers *)
Definition hover_of (t : target) : option hover_answer :=
  match t with
  | TVar r n (Some d) => match vd_type d with Some (_, ty) => Some (AVarHover r n ty) | None => None end
  | TVar _ _ None => None
  | TFn r n ctx =>
      match find_builtin n with
      | Some b =>
          if ctx_eqb (b_ctx b) ctx
          then Some (AFnHover r n (b_params b) (match b_ctx b with CtxOrigin => Some (b_return b) | CtxStatement => None end))
          else None
      | None => None
      end
  end.

Definition definition_of (t : target) : option range :=
  match t with
  | TVar _ _ (Some d) => match vd_name d with Some (nr, _) => Some nr | None => None end
  | _ => None
  end.

(* ---- geometry: every node's range encloses the targets below it (what the parser produces: a
   node's range runs from its first to its last token). A computable predicate: the correspondence
   check evaluates it on every parsed document. ---- *)
Definition within (a b : range) : bool := pos_ge (rstart a) (rstart b) && pos_ge (rend b) (rend a).
Definition uses_within (r : range) (us : list use) : bool := forallb (fun u : use => within (snd u) r) us.

Fixpoint nested_expr (e : expr) : bool :=
  match e with
  | EMonetary r a n => uses_within r (uses_expr a ++ uses_expr n) && nested_expr a && nested_expr n
  | EInfix r _ l rr => uses_within r (uses_expr l ++ uses_expr rr) && nested_expr l && nested_expr rr
  | _ => true
  end.

Fixpoint nested_source (s : source) : bool :=
  match source_range s with Some r => uses_within r (uses_source s) | None => true end
  && match s with
     | SNil => true
     | SAccount e => nested_expr e
     | SInorder _ l => (fix go (l : list source) := match l with [] => true | x :: l' => nested_source x && go l' end) l
     | SAllot _ items =>
         (fix go (l : list (range * allot * source)) :=
            match l with
            | [] => true
            | (ir, a, x) :: l' => uses_within ir (uses_allot a ++ uses_source x) && nested_source x && go l'
            end) items
     | SCapped _ from cap => nested_expr cap && nested_source from
     | SOverdraft _ addr b => nested_expr addr && match b with Some e => nested_expr e | None => true end
     end.

Fixpoint nested_dest (d : dest) : bool :=
  match dest_range d with Some r => uses_within r (uses_dest d) | None => true end
  && match d with
     | DNil => true
     | DAccount e => nested_expr e
     | DInorder _ cl rem =>
         (fix go (l : list (range * expr * kod)) :=
            match l with
            | [] => true
            | (cr, e, k) :: l' => uses_within cr (uses_expr e ++ uses_kod k) && nested_expr e && nested_kod k && go l'
            end) cl
         && nested_kod rem
     | DAllot _ items =>
         (fix go (l : list (range * allot * kod)) :=
            match l with
            | [] => true
            | (ir, a, k) :: l' => uses_within ir (uses_allot a ++ uses_kod k) && nested_kod k && go l'
            end) items
     end
with nested_kod (k : kod) : bool :=
  match k with KTo d => nested_dest d | _ => true end.

Definition nested_sent (sv : sent) : bool :=
  match sv with SVNil => true | SVLit _ e => nested_expr e | SVAll _ e => nested_expr e end.

Definition nested_fncall (f : fncall) : bool :=
  within (fc_caller_range f) (fc_range f) && uses_within (fc_range f) (uses_fncall f) && forallb nested_expr (fc_args f).

Definition nested_stmt (s : stmt) : bool :=
  match s with
  | StNil | StNilFnCall => true
  | StFnCall f => nested_fncall f
  | StSend r sv src dst =>
      uses_within r (uses_stmt s) && nested_sent sv && nested_source src && nested_dest dst
  | StSave r sv a => uses_within r (uses_stmt s) && nested_sent sv && nested_expr a
  end.

Definition nested_vardecl (d : vardecl) : bool :=
  match vd_origin d with
  | Some f => within (fc_caller_range f) (vd_range d) && uses_within (vd_range d) (uses_fncall f) && nested_fncall f
  | None => true
  end.

Definition nested (p : program) : bool := forallb nested_vardecl (p_vars p) && forallb nested_stmt (p_stmts p).
