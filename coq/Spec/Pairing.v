(* Specification of C07, independent of the reconciler: funds pair first-come-first-served.
   Unit expansion: a list of (name, amount) entries is the sequence of its units, each labelled
   with its owner; the k-th unit drawn meets the k-th unit to be filled. Never computed (amounts
   are arbitrary integers); [flow_iv] is the computable closed form used to judge observations,
   proved equal to it in Proofs/PairingProofs.v. *)
From NS Require Import Base.

Definition expand (l : list entry) : list string :=
  flat_map (fun e => repeat (fst e) (Z.to_nat (snd e))) l.

Definition hit (s d : string) (p : string * string) : Z :=
  if (String.eqb (fst p) s && String.eqb (snd p) d)%bool then 1 else 0.

Fixpoint count (s d : string) (l : list (string * string)) : Z :=
  match l with [] => 0 | p :: l' => hit s d p + count s d l' end.

(* number of units of sender [s] that meet a unit of receiver [d] *)
Definition flow_units (S R : list entry) (s d : string) : Z :=
  count s d (combine (expand S) (expand R)).

(* net flow from [s] to [d] in a list of postings *)
Fixpoint flow (ps : list posting) (s d : string) : Z :=
  match ps with
  | [] => 0
  | p :: ps' => (if (String.eqb (psrc p) s && String.eqb (pdst p) d)%bool then pamt p else 0) + flow ps' s d
  end.

Definition pos_entries (l : list entry) := Forall (fun e => 0 < snd e) l.

(* ---- computable closed form: overlap of the intervals occupied by each entry ---- *)
Fixpoint intervals (lo : Z) (l : list entry) : list (string * Z * Z) :=
  match l with
  | [] => []
  | (n, a) :: l' => (n, lo, lo + a) :: intervals (lo + a) l'
  end.

Definition overlap (a b : string * Z * Z) : Z :=
  let '(_, lo1, hi1) := a in let '(_, lo2, hi2) := b in
  Z.max 0 (Z.min hi1 hi2 - Z.max lo1 lo2).

Definition flow_iv (S R : list entry) (s d : string) : Z :=
  zsum (map (fun a => if String.eqb (fst (fst a)) s
                      then zsum (map (fun b => if String.eqb (fst (fst b)) d then overlap a b else 0) (intervals 0 R))
                      else 0) (intervals 0 S)).
