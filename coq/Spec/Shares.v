(* C06: what an exact split is. Independent of the interpreter model. *)
From Coq Require Import Qround.
From NS Require Import Base.

Definition qtotal (ps : list Q) : Q := fold_right Qplus 0%Q ps.

(* the exact portion of the amount, rounded down *)
Definition floor_share (n : Z) (p : Q) : Z := Qfloor (p * inject_Z n).

(* leftover units after rounding every share down *)
Definition leftover (n : Z) (ps : list Q) : Z := n - zsum (map (floor_share n) ps).

(* share of clause i: floor + one leftover unit for the earliest clauses *)
Definition spec_share (n : Z) (ps : list Q) (i : nat) : Z :=
  floor_share n (nth i ps 0%Q) + (if (Z.of_nat i <? leftover n ps) && (i <? List.length ps)%nat then 1 else 0).

Definition spec_shares (n : Z) (ps : list Q) : list Z :=
  map (spec_share n ps) (seq 0 (List.length ps)).

(* a clause list: Some p = explicit portion, None = `remaining` *)
Definition clause := option Q.

Definition explicit_total (cs : list clause) : Q :=
  qtotal (map (fun c => match c with Some p => p | None => 0%Q end) cs).

Definition has_remaining (cs : list clause) : bool := existsb (fun c => match c with None => true | _ => false end) cs.

(* `remaining` stands for one minus the other portions (the code gives it to the last remaining
   clause when there are several; the others count for zero) *)
Fixpoint resolve_clauses (cs : list clause) (rem : Q) (later_remaining : list clause -> bool) : list Q :=
  match cs with
  | [] => []
  | Some p :: cs' => p :: resolve_clauses cs' rem later_remaining
  | None :: cs' => (if later_remaining cs' then 0%Q else rem) :: resolve_clauses cs' rem later_remaining
  end.

(* accepted clause lists and the portions they denote *)
Definition denoted_portions (cs : list clause) : option (list Q) :=
  let t := explicit_total cs in
  if has_remaining cs
  then if Qle_bool t 1 then Some (resolve_clauses cs (1 - t)%Q has_remaining) else None
  else if Qeq_bool t 1 then Some (resolve_clauses cs 0%Q has_remaining) else None.
