(* C10: what it means for a result to depend only on the ledger. [run_sheet] executes a script
   directly on a balance sheet B and a metadata sheet M, without any store: variable origins read
   the sheet, the statements run on the cells the script asks for (all other cells read as 0, and
   the balance of @world as 0: it is never requested). A store is FAITHFUL to (B, M) when it
   answers every balance query with at least the requested cells, at their value in B - a cell that
   is absent or zero in B may be left out, anything may be added - and every metadata query with
   the text M holds. *)
From NS Require Export Run.

Section Sheet.
Variable B : balances.
Variable M : metadata.

Definition sheet_value (k : cell) : Z := if String.eqb (fst k) WORLD then 0 else bget B (fst k) (snd k).

Definition meta_lookup (m : metadata) (account key : string) : option string :=
  match alookup account m with Some am => alookup key am | None => None end.

Definition faithful (sb : store) : Prop :=
  (forall n q, exists b, sb n (CallBalances q) = AnsBalances b
     /\ forall k, requested q k = true -> String.eqb (fst k) WORLD = false ->
          match bfind k b with Some v => v = bget B (fst k) (snd k) | None => bget B (fst k) (snd k) = 0 end)
  /\ (forall n account key, exists m, sb n (CallMeta account key) = AnsMeta m
        /\ meta_lookup m account key = meta_lookup M account key).

Definition add_cell (account asset : string) (H : list cell) : list cell :=
  if String.eqb account WORLD then H else (account, asset) :: H.

Definition sheet_origin (flag : bool) (vs : env) (ty : string) (f : fncall) (H : list cell) : res (value * list cell) :=
  args <- eval_exprs vs (fc_args f) ;;
  if String.eqb (fc_caller f) FnVarOriginMeta then
    '(account, key) <- two_args args expect_account expect_string ;;
    match meta_lookup M account key with
    | Some raw => v <- parse_var ty raw ;; Ok (v, H)
    | None => Err MetadataNotFound
    end
  else if String.eqb (fc_caller f) FnVarOriginBalance then
    '(account, asset) <- two_args args expect_account expect_asset ;;
    let b := sheet_value (account, asset) in
    if b <? 0 then Err NegativeBalanceError else Ok (VMonetary asset b, add_cell account asset H)
  else if String.eqb (fc_caller f) FnVarOriginOverdraft then
    if negb flag then Err ExperimentalFeature else
    '(account, asset) <- two_args args expect_account expect_asset ;;
    let b := sheet_value (account, asset) in
    Ok (VMonetary asset (if 0 <? b then 0 else - b), add_cell account asset H)
  else Err (UnboundFunctionErr (fc_caller f)).

Fixpoint sheet_parse_vars (flag : bool) (decls : list vardecl) (raw : list (string * string))
  (vs : env) (H : list cell) : res (env * list cell) :=
  match decls with
  | [] => Ok (vs, H)
  | d :: decls' =>
      match vd_name d, vd_type d with
      | Some (_, name), Some (_, ty) =>
          '(v, H') <-
            match vd_origin d with
            | None =>
                match alookup name raw with
                | None => Err (MissingVariableErr name)
                | Some r => v <- parse_var ty r ;; Ok (v, H)
                end
            | Some f => sheet_origin flag vs ty f H
            end ;;
          sheet_parse_vars flag decls' raw (aset name v vs) H'
      | _, _ => Panic "parseVars: nil name or type"
      end
  end.

Definition cells_of_query (q : bquery) : list cell :=
  flat_map (fun e : string * list string => map (fun c => (fst e, c)) (snd e)) q.

Definition sheet_prepare (p : program) (raw : list (string * string)) (flag : bool) : res (env * list cell) :=
  '(vs, H) <- sheet_parse_vars flag (p_vars p) raw [] [] ;;
  q <- find_queries_stmts vs (p_stmts p) [] ;;
  Ok (vs, cells_of_query q ++ H).

(* the cells asked for, at their value on the sheet *)
Definition canon_cache (H : list cell) : balances := map (fun k => (k, sheet_value k)) H.

Definition sheet_result := (list posting * list (string * value) * metadata)%type.

Definition run_sheet (p : program) (raw : list (string * string)) (flag : bool) : res sheet_result :=
  '(vs, H) <- sheet_prepare p raw flag ;;
  '(ps, st) <- run_stmts vs (p_stmts p) (mkstate (canon_cache H) [] []) ;;
  Ok (ps, st_txmeta st, st_accmeta st).

End Sheet.

Definition outcome_of (r : res exec_result) : res sheet_result :=
  match r with
  | Ok x => Ok (x_postings x, x_txmeta x, x_accmeta x)
  | Err e => Err e
  | Panic w => Panic w
  end.
