(* C16 / C17: the static rules of the language, as a declarative checker written independently of
   the model of analysis/check.go: expressions have the type their position requires given the
   declared variable types and the built-in signatures (regenerated table), literal portions sum
   to one, send-all sources are bounded. [valid p = true] is the premise of "no false error". *)
From Coq Require Import QArith.
From NS Require Import Syntax.
From NS Require Tables.

Definition tenv := list (string * string).         (* variable -> declared type *)

Definition ty_number := "number".
Definition ty_monetary := "monetary".
Definition ty_account := "account".
Definition ty_portion := "portion".
Definition ty_asset := "asset".
Definition ty_string := "string".
Definition ty_any := "any".

(* the type of an expression, when it has one *)
Fixpoint type_of (te : tenv) (e : expr) : option string :=
  match e with
  | EVar _ n => alookup n te
  | EAsset _ _ => Some ty_asset
  | EString _ _ => Some ty_string
  | EAccount _ _ => Some ty_account
  | ENumber _ _ => Some ty_number
  | ERatio _ _ d => if d =? 0 then None else Some ty_portion
  | EMonetary _ a n =>
      match type_of te a, type_of te n with
      | Some ta, Some tn => if String.eqb ta ty_asset && String.eqb tn ty_number then Some ty_monetary else None
      | _, _ => None
      end
  | EInfix _ op l r =>
      match op with
      | OpOther _ => None
      | _ =>
        match type_of te l, type_of te r with
        | Some tl, Some tr =>
            if String.eqb tl tr && (String.eqb tl ty_number || String.eqb tl ty_monetary) then Some tl else None
        | _, _ => None
        end
      end
  | ENil | ENilMonetary | ENilRatio => None
  end.

Definition has_type (te : tenv) (e : expr) (t : string) : bool :=
  match type_of te e with
  | Some t' => String.eqb t ty_any || String.eqb t t'
  | None => false
  end.

(* literal portions of an allotment: with no variable and no remaining they must sum to one; with
   a remaining clause (last) or portion variables they must not exceed one (when they reach one the
   variables can only be 0 and the remaining clause gets nothing: the checker says so in warnings) *)
Definition allot_ok (te : tenv) (allots : list allot) : bool :=
  let lits := flat_map (fun a => match a with ARatio _ n (Zpos d) => [n # d] | _ => [] end) allots in
  let sum := fold_right Qplus 0%Q lits in
  let nvars := List.length (filter (fun a => match a with AVar _ _ => true | _ => false end) allots) in
  let nrem := List.length (filter (fun a => match a with ARemaining _ => true | _ => false end) allots) in
  forallb (fun a => match a with
                    | ARatio _ _ (Zpos _) => true
                    | AVar _ n => match alookup n te with Some t => String.eqb t ty_portion | None => false end
                    | ARemaining _ => true
                    | _ => false end) allots
  && match nrem with
     | O => true
     | S O => match last allots ANil with ARemaining _ => true | _ => false end
     | _ => false
     end
  && (if (nrem =? 0)%nat && (nvars =? 0)%nat then Qeq_bool sum 1
      else match Qcompare sum 1 with Gt => false | _ => true end).

Fixpoint source_ok (te : tenv) (send_all : bool) (s : source) : bool :=
  match s with
  | SNil => false
  | SAccount e => has_type te e ty_account && negb (send_all && match e with EAccount _ n => String.eqb n "world" | _ => false end)
  | SOverdraft _ addr b =>
      has_type te addr ty_account
      && match b with Some e => has_type te e ty_monetary | None => negb send_all end
  | SInorder _ l => forallb (source_ok te send_all) l
  | SCapped _ from cap => has_type te cap ty_monetary && source_ok te false from
  | SAllot _ items =>
      negb send_all && allot_ok te (map (fun it : range * allot * source => snd (fst it)) items)
      && forallb (fun it : range * allot * source => source_ok te false (snd it)) items
  end.

Fixpoint dest_ok (te : tenv) (d : dest) : bool :=
  match d with
  | DNil => false
  | DAccount e => has_type te e ty_account
  | DInorder _ cl rem =>
      forallb (fun c : range * expr * kod => has_type te (snd (fst c)) ty_monetary && kod_ok te (snd c)) cl && kod_ok te rem
  | DAllot _ items =>
      allot_ok te (map (fun it : range * allot * kod => snd (fst it)) items)
      && forallb (fun it : range * allot * kod => kod_ok te (snd it)) items
  end
with kod_ok (te : tenv) (k : kod) : bool :=
  match k with KNil => false | KKept _ => true | KTo d => dest_ok te d end.

(* the built-in functions of the language: (name, context, parameter types, return type), and the
   type names a declaration may use. Written here, not read from the implementation's tables: a
   checker whose own table drifts (Gen/Tables.v is regenerated from check.go on every run, and
   Proofs/CheckProofs.v / TablesOk.v require it to equal this) is then wrong against the specification *)
Definition spec_builtins : list (string * string * list string * string) :=
  [("balance", "origin", ["account"; "asset"], "monetary");
   ("meta", "origin", ["account"; "string"], "any");
   ("overdraft", "origin", ["account"; "asset"], "monetary");
   ("set_account_meta", "statement", ["account"; "string"; "any"], "");
   ("set_tx_meta", "statement", ["string"; "any"], "")].
Definition spec_allowed_types : list string := ["monetary"; "account"; "portion"; "asset"; "number"; "string"].

Definition sig_of (name ctx : string) : option (list string * string) :=
  match find (fun b : string * string * list string * string => String.eqb (fst (fst (fst b))) name && String.eqb (snd (fst (fst b))) ctx) spec_builtins with
  | Some b => Some (snd (fst b), snd b)
  | None => None
  end.

Fixpoint args_ok (te : tenv) (args : list expr) (sig : list string) : bool :=
  match args, sig with
  | [], [] => true
  | a :: args', t :: sig' => has_type te a t && args_ok te args' sig'
  | _, _ => false
  end.

Definition stmt_ok (te : tenv) (s : stmt) : bool :=
  match s with
  | StSend _ (SVLit _ m) src dst => has_type te m ty_monetary && source_ok te false src && dest_ok te dst
  | StSend _ (SVAll _ a) src dst => has_type te a ty_asset && source_ok te true src && dest_ok te dst
  | StSave _ (SVLit _ m) a => has_type te m ty_monetary && has_type te a ty_account
  | StSave _ (SVAll _ x) a => has_type te x ty_asset && has_type te a ty_account
  | StFnCall f => match sig_of (fc_caller f) "statement" with Some (sig, _) => args_ok te (fc_args f) sig | None => false end
  | _ => false
  end.

(* declarations: distinct names, allowed types, origins well-typed against what is declared BEFORE
   the declaration (a variable is not in scope in its own origin: the origin is evaluated first) *)
Fixpoint decls_ok (te : tenv) (ds : list vardecl) : option tenv :=
  match ds with
  | [] => Some te
  | d :: ds' =>
      match vd_name d, vd_type d with
      | Some (_, n), Some (_, t) =>
          if amem n te || negb (mem_str t spec_allowed_types) then None
          else
            let te' := te ++ [(n, t)] in
            match vd_origin d with
            | None => decls_ok te' ds'
            | Some f =>
                match sig_of (fc_caller f) "origin" with
                | Some (sig, ret) =>
                    if args_ok te (fc_args f) sig && (String.eqb ret ty_any || String.eqb ret t) then decls_ok te' ds' else None
                | None => None
                end
            end
      | _, _ => None
      end
  end.

Definition valid (p : program) : bool :=
  match decls_ok [] (p_vars p) with
  | Some te => forallb (stmt_ok te) (p_stmts p)
  | None => false
  end.
