// Witnesses for the defect ledger (DESIGN.md section 5). Compiled into the numscript
// module through `go run -overlay`; prints the behaviour of the tree it is built from.
package main

import (
	"context"
	"fmt"
	"math/big"
	"strings"

	"github.com/formancehq/numscript"
	"github.com/formancehq/numscript/internal/analysis"
	"github.com/formancehq/numscript/internal/interpreter"
	"github.com/formancehq/numscript/internal/parser"
)

func bal(kv ...any) numscript.Balances {
	b := numscript.Balances{}
	for i := 0; i < len(kv); i += 3 {
		a := kv[i].(string)
		if b[a] == nil {
			b[a] = numscript.AccountBalance{}
		}
		b[a][kv[i+1].(string)] = big.NewInt(int64(kv[i+2].(int)))
	}
	return b
}

func run(name, script string, vars map[string]string, b numscript.Balances) {
	defer func() {
		if r := recover(); r != nil {
			fmt.Printf("%s: PANIC %v\n", name, r)
		}
	}()
	p := numscript.Parse(script)
	if len(p.GetParsingErrors()) != 0 {
		fmt.Printf("%s: parse errors %v\n", name, p.GetParsingErrors())
		return
	}
	res, err := p.Run(context.Background(), vars, numscript.StaticStore{Balances: b})
	if err != nil {
		fmt.Printf("%s: error %T %v\n", name, err, err)
		return
	}
	var ps []string
	for _, x := range res.Postings {
		ps = append(ps, fmt.Sprintf("%s->%s %s %s", x.Source, x.Destination, x.Amount, x.Asset))
	}
	fmt.Printf("%s: postings [%s]\n", name, strings.Join(ps, "; "))
}

type exactStore struct{ b numscript.Balances }

func (s exactStore) GetBalances(_ context.Context, q numscript.BalanceQuery) (numscript.Balances, error) {
	out := numscript.Balances{}
	for a, cs := range q {
		out[a] = numscript.AccountBalance{}
		for _, c := range cs {
			v := big.NewInt(0)
			if x, ok := s.b[a][c]; ok {
				v = new(big.Int).Set(x)
			}
			out[a][c] = v
		}
	}
	return out, nil
}
func (s exactStore) GetAccountsMetadata(context.Context, numscript.MetadataQuery) (numscript.AccountsMetadata, error) {
	return numscript.AccountsMetadata{}, nil
}

func check(name, script string) {
	defer func() {
		if r := recover(); r != nil {
			fmt.Printf("%s: PANIC %v\n", name, r)
		}
	}()
	res := analysis.CheckSource(script)
	var ds []string
	for _, d := range res.Diagnostics {
		ds = append(ds, fmt.Sprintf("%T@%d:%d-%d:%d sev=%d", d.Kind, d.Range.Start.Line, d.Range.Start.Character, d.Range.End.Line, d.Range.End.Character, d.Kind.Severity()))
	}
	fmt.Printf("%s: diagnostics [%s]\n", name, strings.Join(ds, "; "))
}

func main() {
	run("D1 dup source", `send [USD 20] (source = {@a @a} destination = @c)`, nil, bal("a", "USD", 10))
	run("D2 negative balance in-order", `send [USD 5] (source = {@a @b} destination = @c)`, nil, bal("a", "USD", -3, "b", "USD", 10))
	run("D2 negative balance send-all", `send [USD *] (source = @a destination = @b)`, nil, bal("a", "USD", -3))
	run("D2 send 0 from negative", `send [USD 0] (source = @a destination = @b)`, nil, bal("a", "USD", -3))
	run("D3 negative dest cap", `send [USD 10] (source = @world destination = {max [USD -5] to @a remaining to @b})`, nil, bal())
	run("D4 kept > first source", `send [USD 10] (source = {@a @b} destination = {max [USD 8] kept remaining to @c})`, nil, bal("a", "USD", 5, "b", "USD", 5))
	run("D5 save from negative", "save [USD 1] from @a\nsend [USD 3] (source = @a allowing overdraft up to [USD 3] destination = @b)", nil, bal("a", "USD", -3))
	func() {
		defer func() {
			if r := recover(); r != nil {
				fmt.Printf("D6: PANIC %v\n", r)
			}
		}()
		p := numscript.Parse("vars { monetary $m = balance(@b, USD) }\nsend [USD 5] (source = @a destination = @c)\nsend $m (source = @b destination = @c)")
		res, err := p.Run(context.Background(), nil, exactStore{bal("a", "USD", 10, "b", "USD", 7)})
		fmt.Printf("D6 exact store, balance() var + other source: %v err=%v\n", res.Postings, err)
		p = numscript.Parse("vars { monetary $m = balance(@b, USD) }\nsend $m (source = @b destination = @c)\nsend [USD 5] (source = @a destination = @c)")
		res, err = p.Run(context.Background(), nil, exactStore{bal("a", "USD", 10, "b", "USD", 7)})
		fmt.Printf("D6' exact store: %v err=%v\n", res.Postings, err)
	}()
	func() {
		b := bal("a", "USD", 10)
		p := numscript.Parse(`send [USD 4] (source = @a destination = @c)`)
		p.Run(context.Background(), nil, numscript.StaticStore{Balances: b})
		fmt.Printf("D7 caller's balances after run: a=%v c=%v\n", b["a"]["USD"], b["c"]["USD"])
	}()
	run("D8 1/0 run", `send [USD 10] (source = @world destination = {1/0 to @a remaining to @b})`, nil, bal())
	check("D8 1/0 check", `send [USD 10] (source = @world destination = {1/0 to @a remaining to @b})`)
	func() {
		defer func() {
			if r := recover(); r != nil {
				fmt.Printf("D9: PANIC %v\n", r)
			}
		}()
		for _, s := range []string{"0.10%", "010%", "08%", "99999999999999999999%"} {
			func() {
				defer func() {
					if r := recover(); r != nil {
						fmt.Printf("D9 %s: PANIC %v\n", s, r)
					}
				}()
				n, d, err := parser.ParsePercentageRatio(s)
				fmt.Printf("D9 %s -> %v/%v err=%v\n", s, n, d, err)
				pr := parser.Parse("send [USD 100000] (source=@world destination={" + s + " to @a remaining to @b})")
				fmt.Printf("D9 parse %s errors=%d\n", s, len(pr.Errors))
			}()
		}
	}()
	func() {
		defer func() {
			if r := recover(); r != nil {
				fmt.Printf("D10: PANIC %v\n", r)
			}
		}()
		pr := parser.Parse(`send [USD 99999999999999999999999] (source=@world destination=@a)`)
		fmt.Printf("D10 errors=%d\n", len(pr.Errors))
	}()
	for _, s := range []string{"1/010", "1/0x10", "0x1/2", "1/0"} {
		r, err := interpreter.ParsePortionSpecific(s)
		fmt.Printf("D11 portion var %q -> %v err=%v\n", s, r, err)
	}
	func() {
		pr := parser.Parse("set_tx_meta(\"é\", 1)")
		fc := pr.Value.Statements[0].(*parser.FnCall)
		fmt.Printf("D12 range of \"é\" literal: %+v (text is 3 characters wide)\n", fc.Args[0].GetRange())
	}()
	check("D13 infix unchecked", "send [USD 1] + @a (source = @world destination = @b)")
	run("D13 infix unchecked run", "send [USD 1] + @a (source = @world destination = @b)", nil, bal())
	check("D14 bounded overdraft under send-all", "send [USD *] (source = @a allowing overdraft up to [USD 1] destination = @b)")
	run("D14 run", "send [USD *] (source = @a allowing overdraft up to [USD 1] destination = @b)", nil, bal("a", "USD", 2))
	check("D15 missing var name", "vars { number = balance(@a, USD) }")
	check("D16 surplus args", "vars { number $x number $z }\nset_tx_meta(\"k\", 1, $x, $y)")
	run("D17 remaining with sum > 1", `send [USD 10] (source = {3/2 from @a remaining from @b} destination = @c)`, nil, bal("a", "USD", 100, "b", "USD", 100))
	run("D17' dest", `send [USD 10] (source = @world destination = {3/2 to @a remaining to @b})`, nil, bal())
	run("D18 empty account var", "vars { account $a }\nsend [USD 1] (source = @world destination = $a)", map[string]string{"a": ""}, bal())
	run("D18 kept account var", "vars { account $a }\nsend [USD 1] (source = @world destination = $a)", map[string]string{"a": "<kept>"}, bal())
}
