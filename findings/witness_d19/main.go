package main

import (
	"context"
	"fmt"
	"math/big"

	"github.com/formancehq/numscript"
)

type sup struct{ b numscript.Balances }

func (s sup) GetBalances(ctx context.Context, q numscript.BalanceQuery) (numscript.Balances, error) {
	fmt.Println("  query:", q)
	out := numscript.Balances{}
	for a, m := range s.b {
		out[a] = numscript.AccountBalance{}
		for c, v := range m {
			out[a][c] = new(big.Int).Set(v)
		}
	}
	return out, nil
}
func (s sup) GetAccountsMetadata(ctx context.Context, q numscript.MetadataQuery) (numscript.AccountsMetadata, error) {
	return nil, nil
}

type exact struct{ b numscript.Balances }

func (s exact) GetBalances(ctx context.Context, q numscript.BalanceQuery) (numscript.Balances, error) {
	fmt.Println("  query:", q)
	out := numscript.Balances{}
	for a, cs := range q {
		out[a] = numscript.AccountBalance{}
		for _, c := range cs {
			if v, ok := s.b[a][c]; ok {
				out[a][c] = new(big.Int).Set(v)
			} else {
				out[a][c] = big.NewInt(0)
			}
		}
	}
	return out, nil
}
func (s exact) GetAccountsMetadata(ctx context.Context, q numscript.MetadataQuery) (numscript.AccountsMetadata, error) {
	return nil, nil
}

func main() {
	src := `vars {
  monetary $x = balance(@x, USD)
  monetary $w = balance(@world, USD)
}
send $w (source = @world destination = @y)
`
	b := numscript.Balances{"x": {"USD": big.NewInt(5)}, "world": {"USD": big.NewInt(70)}}
	p := numscript.Parse(src)
	fmt.Println(p.GetParsingErrors())
	for _, st := range []numscript.Store{exact{b}, sup{b}, numscript.StaticStore{Balances: b}} {
		r, err := p.Run(context.Background(), nil, st)
		fmt.Printf("%T: %v err=%v\n", st, r.Postings, err)
	}
}
