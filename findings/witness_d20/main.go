package main

import (
	"context"
	"fmt"
	"math/big"

	"github.com/formancehq/numscript"
	"github.com/formancehq/numscript/internal/analysis"
)

func main() {
	src := `vars {
  account $a = meta($a, "k")
}
send [USD 1] (source = @world destination = $a)
`
	res := analysis.CheckSource(src)
	fmt.Println("diagnostics:", len(res.Diagnostics))
	for _, d := range res.Diagnostics {
		fmt.Printf("  %T %v\n", d.Kind, d.Range)
	}
	p := numscript.Parse(src)
	r, err := p.Run(context.Background(), nil, numscript.StaticStore{Balances: numscript.Balances{"x": {"USD": big.NewInt(5)}}, Meta: numscript.AccountsMetadata{"b": {"k": "c"}}})
	fmt.Printf("run: %v err=%T %v\n", r.Postings, err, err)
}
