package main

import (
	"fmt"
	"math/big"
	"strings"

	"github.com/formancehq/numscript/internal/parser"
)

// ---------------------------------------------------------------------------------------------
// Go values -> Coq terms (coq/Model/Syntax.v). Nil interfaces and typed nil pointers are told
// apart explicitly, field by field.

// coqStr renders a Go string (a byte sequence) as a Coq string term. Printable ASCII is written
// as a literal; anything else goes through the byte list helper `bs`.
func coqStr(s string) string {
	plain := true
	for i := 0; i < len(s); i++ {
		c := s[i]
		if c < 32 || c > 126 {
			plain = false
			break
		}
	}
	if plain {
		return "\"" + strings.ReplaceAll(s, "\"", "\"\"") + "\""
	}
	var sb strings.Builder
	sb.WriteString("(bs [")
	for i := 0; i < len(s); i++ {
		if i > 0 {
			sb.WriteString(";")
		}
		fmt.Fprintf(&sb, "%d", s[i])
	}
	sb.WriteString("])")
	return sb.String()
}

func coqZ(n *big.Int) string {
	if n.Sign() < 0 {
		return "(" + n.String() + ")"
	}
	return n.String()
}

func coqInt(n int) string {
	if n < 0 {
		return fmt.Sprintf("(%d)", n)
	}
	return fmt.Sprintf("%d", n)
}

func coqRange(r parser.Range) string {
	return fmt.Sprintf("(R %s %s %s %s)", coqInt(r.Start.Line), coqInt(r.Start.Character), coqInt(r.End.Line), coqInt(r.End.Character))
}

func coqList(items []string) string {
	return "[" + strings.Join(items, "; ") + "]"
}

func dumpExpr(e parser.ValueExpr) string {
	switch e := e.(type) {
	case nil:
		return "ENil"
	case *parser.Variable:
		if e == nil {
			return "ENil" // cannot be produced by parser.go; kept total
		}
		return fmt.Sprintf("(EVar %s %s)", coqRange(e.Range), coqStr(e.Name))
	case *parser.AssetLiteral:
		return fmt.Sprintf("(EAsset %s %s)", coqRange(e.Range), coqStr(e.Asset))
	case *parser.StringLiteral:
		return fmt.Sprintf("(EString %s %s)", coqRange(e.Range), coqStr(e.String))
	case *parser.AccountLiteral:
		return fmt.Sprintf("(EAccount %s %s)", coqRange(e.Range), coqStr(e.Name))
	case *parser.NumberLiteral:
		if e == nil {
			return "ENil"
		}
		return fmt.Sprintf("(ENumber %s %s)", coqRange(e.Range), coqZ(big.NewInt(int64(e.Number))))
	case *parser.MonetaryLiteral:
		if e == nil {
			return "ENilMonetary"
		}
		return fmt.Sprintf("(EMonetary %s %s %s)", coqRange(e.Range), dumpExpr(e.Asset), dumpExpr(e.Amount))
	case *parser.RatioLiteral:
		if e == nil {
			return "ENilRatio"
		}
		return fmt.Sprintf("(ERatio %s %s %s)", coqRange(e.Range), coqZ(e.Numerator), coqZ(e.Denominator))
	case *parser.BinaryInfix:
		op := "(OpOther " + coqStr(string(e.Operator)) + ")"
		switch e.Operator {
		case parser.InfixOperatorPlus:
			op = "OpPlus"
		case parser.InfixOperatorMinus:
			op = "OpMinus"
		}
		return fmt.Sprintf("(EInfix %s %s %s %s)", coqRange(e.Range), op, dumpExpr(e.Left), dumpExpr(e.Right))
	}
	panic(fmt.Sprintf("dumpExpr: unknown %T", e))
}

func dumpAllot(a parser.AllotmentValue) string {
	switch a := a.(type) {
	case nil:
		return "ANil"
	case *parser.RatioLiteral:
		if a == nil {
			return "ANilRatio"
		}
		return fmt.Sprintf("(ARatio %s %s %s)", coqRange(a.Range), coqZ(a.Numerator), coqZ(a.Denominator))
	case *parser.Variable:
		return fmt.Sprintf("(AVar %s %s)", coqRange(a.Range), coqStr(a.Name))
	case *parser.RemainingAllotment:
		return fmt.Sprintf("(ARemaining %s)", coqRange(a.Range))
	}
	panic(fmt.Sprintf("dumpAllot: unknown %T", a))
}

func dumpSource(s parser.Source) string {
	switch s := s.(type) {
	case nil:
		return "SNil"
	case *parser.SourceAccount:
		return fmt.Sprintf("(SAccount %s)", dumpExpr(s.ValueExpr))
	case *parser.SourceInorder:
		var xs []string
		for _, x := range s.Sources {
			xs = append(xs, dumpSource(x))
		}
		return fmt.Sprintf("(SInorder %s %s)", coqRange(s.Range), coqList(xs))
	case *parser.SourceAllotment:
		var xs []string
		for _, it := range s.Items {
			xs = append(xs, fmt.Sprintf("(%s, %s, %s)", coqRange(it.Range), dumpAllot(it.Allotment), dumpSource(it.From)))
		}
		return fmt.Sprintf("(SAllot %s %s)", coqRange(s.Range), coqList(xs))
	case *parser.SourceCapped:
		return fmt.Sprintf("(SCapped %s %s %s)", coqRange(s.Range), dumpSource(s.From), dumpExpr(s.Cap))
	case *parser.SourceOverdraft:
		b := "None"
		if s.Bounded != nil {
			b = "(Some " + dumpExpr(*s.Bounded) + ")"
		}
		return fmt.Sprintf("(SOverdraft %s %s %s)", coqRange(s.Range), dumpExpr(s.Address), b)
	}
	panic(fmt.Sprintf("dumpSource: unknown %T", s))
}

func dumpKod(k parser.KeptOrDestination) string {
	switch k := k.(type) {
	case nil:
		return "KNil"
	case *parser.DestinationKept:
		return fmt.Sprintf("(KKept %s)", coqRange(k.Range))
	case *parser.DestinationTo:
		return fmt.Sprintf("(KTo %s)", dumpDest(k.Destination))
	}
	panic(fmt.Sprintf("dumpKod: unknown %T", k))
}

func dumpDest(d parser.Destination) string {
	switch d := d.(type) {
	case nil:
		return "DNil"
	case *parser.DestinationAccount:
		return fmt.Sprintf("(DAccount %s)", dumpExpr(d.ValueExpr))
	case *parser.DestinationInorder:
		var xs []string
		for _, c := range d.Clauses {
			xs = append(xs, fmt.Sprintf("(%s, %s, %s)", coqRange(c.Range), dumpExpr(c.Cap), dumpKod(c.To)))
		}
		return fmt.Sprintf("(DInorder %s %s %s)", coqRange(d.Range), coqList(xs), dumpKod(d.Remaining))
	case *parser.DestinationAllotment:
		var xs []string
		for _, it := range d.Items {
			xs = append(xs, fmt.Sprintf("(%s, %s, %s)", coqRange(it.Range), dumpAllot(it.Allotment), dumpKod(it.To)))
		}
		return fmt.Sprintf("(DAllot %s %s)", coqRange(d.Range), coqList(xs))
	}
	panic(fmt.Sprintf("dumpDest: unknown %T", d))
}

func dumpSent(s parser.SentValue) string {
	switch s := s.(type) {
	case nil:
		return "SVNil"
	case *parser.SentValueLiteral:
		return fmt.Sprintf("(SVLit %s %s)", coqRange(s.Range), dumpExpr(s.Monetary))
	case *parser.SentValueAll:
		return fmt.Sprintf("(SVAll %s %s)", coqRange(s.Range), dumpExpr(s.Asset))
	}
	panic(fmt.Sprintf("dumpSent: unknown %T", s))
}

func dumpFnCall(f *parser.FnCall) string {
	var xs []string
	for _, a := range f.Args {
		xs = append(xs, dumpExpr(a))
	}
	cr, cn := "norange", "\"\""
	if f.Caller != nil {
		cr, cn = coqRange(f.Caller.Range), coqStr(f.Caller.Name)
	}
	return fmt.Sprintf("(mkfncall %s %s %s %s)", coqRange(f.Range), cr, cn, coqList(xs))
}

func dumpStmt(s parser.Statement) string {
	switch s := s.(type) {
	case nil:
		return "StNil"
	case *parser.FnCall:
		if s == nil {
			return "StNilFnCall"
		}
		return fmt.Sprintf("(StFnCall %s)", dumpFnCall(s))
	case *parser.SendStatement:
		return fmt.Sprintf("(StSend %s %s %s %s)", coqRange(s.Range), dumpSent(s.SentValue), dumpSource(s.Source), dumpDest(s.Destination))
	case *parser.SaveStatement:
		return fmt.Sprintf("(StSave %s %s %s)", coqRange(s.Range), dumpSent(s.SentValue), dumpExpr(s.Amount))
	}
	panic(fmt.Sprintf("dumpStmt: unknown %T", s))
}

func dumpProgram(p parser.Program) string {
	var vs, ss []string
	for _, v := range p.Vars {
		name, typ, origin := "None", "None", "None"
		if v.Name != nil {
			name = fmt.Sprintf("(Some (%s, %s))", coqRange(v.Name.Range), coqStr(v.Name.Name))
		}
		if v.Type != nil {
			typ = fmt.Sprintf("(Some (%s, %s))", coqRange(v.Type.Range), coqStr(v.Type.Name))
		}
		if v.Origin != nil {
			origin = "(Some " + dumpFnCall(v.Origin) + ")"
		}
		vs = append(vs, fmt.Sprintf("(mkvardecl %s %s %s %s)", coqRange(v.Range), name, typ, origin))
	}
	for _, s := range p.Statements {
		ss = append(ss, dumpStmt(s))
	}
	return fmt.Sprintf("(mkprogram %s %s)", coqList(vs), coqList(ss))
}


// parseSafe: parser.Parse, except that a crash of the parser (a seeded change can make it panic on some
// texts) yields an empty tree with one error instead of killing the harness; the crash itself is observed
// by the calls that are made under recover (CheckSource, Parse in the parser properties).
func parseSafe(text string) (pr parser.ParseResult) {
	defer func() {
		if r := recover(); r != nil {
			pr = parser.ParseResult{Source: text, Errors: []parser.ParserError{{Msg: "parser crashed: " + fmt.Sprint(r)}}}
		}
	}()
	return parser.Parse(text)
}
