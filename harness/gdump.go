package main

import (
	"fmt"
)

// The generator's own tree rendered as a Coq term of Model/Syntax.v, with the ranges the printer
// recorded (first character of the first token to just past the last token): what C15 expects the
// parser to recover.

type gd struct {
	pos []TokPos
	bad *bool // set when the generator's tree has no counterpart in Model/Syntax.v (an edited program that no longer prints as a script)
}

func (d gd) rng(s Span) string {
	a, b := d.pos[s.T0], d.pos[s.T1]
	return fmt.Sprintf("(R %d %d %d %d)", a.L0, a.C0, b.L1, b.C1)
}

func (d gd) expr(e *GExpr) string {
	switch e.Kind {
	case XVar:
		return fmt.Sprintf("(EVar %s %s)", d.rng(e.Span), coqStr(e.S))
	case XAsset:
		return fmt.Sprintf("(EAsset %s %s)", d.rng(e.Span), coqStr(e.S))
	case XString:
		return fmt.Sprintf("(EString %s %s)", d.rng(e.Span), coqStr(e.S))
	case XAccount:
		return fmt.Sprintf("(EAccount %s %s)", d.rng(e.Span), coqStr(e.S))
	case XNumber:
		return fmt.Sprintf("(ENumber %s %s)", d.rng(e.Span), coqZ(e.N))
	case XRatio:
		return fmt.Sprintf("(ERatio %s %s %s)", d.rng(e.Span), coqZ(e.Num), coqZ(e.Den))
	case XMonetary:
		return fmt.Sprintf("(EMonetary %s %s %s)", d.rng(e.Span), d.expr(e.A), d.expr(e.B))
	case XInfix:
		op := "OpPlus"
		if e.Op == "-" {
			op = "OpMinus"
		}
		return fmt.Sprintf("(EInfix %s %s %s %s)", d.rng(e.Span), op, d.expr(e.A), d.expr(e.B))
	}
	return "ENil"
}

func (d gd) allot(a *GAllot) string {
	switch a.Kind {
	case AlRemaining:
		return fmt.Sprintf("(ARemaining %s)", d.rng(a.Span))
	}
	// an edit may have put another expression where the portion was: what is written decides
	switch a.E.Kind {
	case XVar:
		return fmt.Sprintf("(AVar %s %s)", d.rng(a.Span), coqStr(a.E.S))
	case XRatio:
		return fmt.Sprintf("(ARatio %s %s %s)", d.rng(a.Span), coqZ(a.E.Num), coqZ(a.E.Den))
	}
	if d.bad != nil {
		*d.bad = true
	}
	return "ANil"
}

func (d gd) source(s *GSource) string {
	switch s.Kind {
	case SrcAccount:
		return "(SAccount " + d.expr(s.E) + ")"
	case SrcOverdraft:
		b := "None"
		if s.Bounded != nil {
			b = "(Some " + d.expr(s.Bounded) + ")"
		}
		return fmt.Sprintf("(SOverdraft %s %s %s)", d.rng(s.Span), d.expr(s.E), b)
	case SrcInorder:
		var xs []string
		for _, x := range s.Subs {
			xs = append(xs, d.source(x))
		}
		return fmt.Sprintf("(SInorder %s %s)", d.rng(s.Span), coqList(xs))
	case SrcAllot:
		var xs []string
		for _, it := range s.Items {
			xs = append(xs, fmt.Sprintf("(%s, %s, %s)", d.rng(it.Span), d.allot(it.Allot), d.source(it.From)))
		}
		return fmt.Sprintf("(SAllot %s %s)", d.rng(s.Span), coqList(xs))
	}
	return fmt.Sprintf("(SCapped %s %s %s)", d.rng(s.Span), d.source(s.From), d.expr(s.Cap))
}

func (d gd) kod(k *GKod) string {
	if k.Kept {
		return fmt.Sprintf("(KKept %s)", d.rng(k.Span))
	}
	return "(KTo " + d.dest(k.To) + ")"
}

func (d gd) dest(x *GDest) string {
	switch x.Kind {
	case DstAccount:
		return "(DAccount " + d.expr(x.E) + ")"
	case DstInorder:
		var xs []string
		for _, c := range x.Clauses {
			xs = append(xs, fmt.Sprintf("(%s, %s, %s)", d.rng(c.Span), d.expr(c.Cap), d.kod(c.To)))
		}
		return fmt.Sprintf("(DInorder %s %s %s)", d.rng(x.Span), coqList(xs), d.kod(x.Remaining))
	}
	var xs []string
	for _, it := range x.Items {
		xs = append(xs, fmt.Sprintf("(%s, %s, %s)", d.rng(it.Span), d.allot(it.Allot), d.kod(it.To)))
	}
	return fmt.Sprintf("(DAllot %s %s)", d.rng(x.Span), coqList(xs))
}

func (d gd) sent(s *GSent) string {
	if s.All {
		return fmt.Sprintf("(SVAll %s %s)", d.rng(s.Span), d.expr(s.E))
	}
	return fmt.Sprintf("(SVLit %s %s)", d.rng(s.Span), d.expr(s.E))
}

func (d gd) call(c *GFnCall) string {
	var xs []string
	for _, a := range c.Args {
		xs = append(xs, d.expr(a))
	}
	return fmt.Sprintf("(mkfncall %s %s %s %s)", d.rng(c.Span), d.rng(c.NameSpan), coqStr(c.Name), coqList(xs))
}

func (d gd) program(p *GProgram) string {
	var vs, ss []string
	for _, v := range p.Vars {
		origin := "None"
		if v.Origin != nil {
			origin = "(Some " + d.call(v.Origin) + ")"
		}
		vs = append(vs, fmt.Sprintf("(mkvardecl %s (Some (%s, %s)) (Some (%s, %s)) %s)", d.rng(v.Span), d.rng(v.NameSpan), coqStr(v.Name), d.rng(v.TypeSpan), coqStr(v.Type), origin))
	}
	for _, s := range p.Stmts {
		switch s.Kind {
		case StSend:
			ss = append(ss, fmt.Sprintf("(StSend %s %s %s %s)", d.rng(s.Span), d.sent(s.Sent), d.source(s.Src), d.dest(s.Dst)))
		case StSave:
			ss = append(ss, fmt.Sprintf("(StSave %s %s %s)", d.rng(s.Span), d.sent(s.Sent), d.expr(s.Acct)))
		default:
			ss = append(ss, "(StFnCall "+d.call(s.Call)+")")
		}
	}
	return fmt.Sprintf("(mkprogram %s %s)", coqList(vs), coqList(ss))
}

// expectedOrNone: the generator's tree as a Coq term, or "" when it cannot be expressed
func expectedOrNone(pos []TokPos, prog *GProgram) string {
	var bad bool
	e := gd{pos, &bad}.program(prog)
	if bad {
		return ""
	}
	return e
}
