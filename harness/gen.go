package main

import (
	"fmt"
	"math/big"
	"sort"
	"strings"
)

// ---------------------------------------------------------------------------------------------
// The generator's own tree. It mirrors internal/parser/ast.go so that C15 can compare the parsed
// tree with it node by node. Span = indices of the first and last token of the construct in the
// token list produced by the printer.

type Span struct{ T0, T1 int }

const (
	XVar = iota
	XAsset
	XString
	XAccount
	XNumber
	XMonetary
	XRatio
	XInfix
)

type GExpr struct {
	Span
	Kind int
	S    string   // XVar: name; XAsset: asset; XString: raw content between the quotes; XAccount: name without '@'
	N    *big.Int // XNumber
	NumText string // XNumber: the literal as written when it is not the canonical decimal (leading zeros)
	Text string   // XRatio: the literal as written (e.g. "1/3", "1 / 3", "12.50%")
	Num  *big.Int // XRatio: exact value
	Den  *big.Int
	A, B *GExpr // XMonetary: asset, amount; XInfix: left, right
	Op   string // XInfix: "+" | "-"
}

const (
	AlRatio = iota
	AlVar
	AlRemaining
)

type GAllot struct {
	Span
	Kind int
	E    *GExpr // AlRatio: XRatio expr; AlVar: XVar expr
}

const (
	SrcAccount = iota
	SrcOverdraft
	SrcInorder
	SrcAllot
	SrcCapped
)

type GSource struct {
	Span
	Kind    int
	E       *GExpr // account / address
	Bounded *GExpr // SrcOverdraft: nil = unbounded
	Subs    []*GSource
	Items   []*GSrcItem
	From    *GSource // SrcCapped
	Cap     *GExpr   // SrcCapped
}

type GSrcItem struct {
	Span
	Allot *GAllot
	From  *GSource
}

const (
	DstAccount = iota
	DstInorder
	DstAllot
)

type GDest struct {
	Span
	Kind      int
	E         *GExpr
	Clauses   []*GClause
	Remaining *GKod
	Items     []*GDestItem
}

type GKod struct {
	Span // of the `kept` token (DestinationKept has a range; DestinationTo has none)
	Kept bool
	To   *GDest
}

type GClause struct {
	Span
	Cap *GExpr
	To  *GKod
}

type GDestItem struct {
	Span
	Allot *GAllot
	To    *GKod
}

type GSent struct {
	Span
	All bool
	E   *GExpr // monetary expr, or the asset expr of [A *]
}

type GFnCall struct {
	Span
	NameSpan Span
	Name     string
	Args     []*GExpr
}

const (
	StSend = iota
	StSave
	StCall
)

type GStmt struct {
	Span
	Kind int
	Sent *GSent
	Src  *GSource
	Dst  *GDest
	Acct *GExpr
	Call *GFnCall
}

type GVarDecl struct {
	Span
	Type     string
	TypeSpan Span
	Name     string
	NameSpan Span
	Origin   *GFnCall
}

type GProgram struct {
	Vars     []*GVarDecl
	VarBlock bool // print a vars { } block even when empty
	Stmts    []*GStmt
}

// ---------------------------------------------------------------------------------------------
// Printer: tree -> tokens (recording spans) -> text under a layout (recording token positions).

type Printer struct{ Toks []string }

func (p *Printer) tok(s string) int { p.Toks = append(p.Toks, s); return len(p.Toks) - 1 }

func quoteString(raw string) string { return "\"" + raw + "\"" }

func (p *Printer) expr(e *GExpr) {
	switch e.Kind {
	case XVar:
		e.T0 = p.tok("$" + e.S)
		e.T1 = e.T0
	case XAsset:
		e.T0 = p.tok(e.S)
		e.T1 = e.T0
	case XString:
		e.T0 = p.tok(quoteString(e.S))
		e.T1 = e.T0
	case XAccount:
		e.T0 = p.tok("@" + e.S)
		e.T1 = e.T0
	case XNumber:
		if e.NumText != "" {
			e.T0 = p.tok(e.NumText)
		} else {
			e.T0 = p.tok(e.N.String())
		}
		e.T1 = e.T0
	case XRatio:
		e.T0 = p.tok(e.Text)
		e.T1 = e.T0
	case XMonetary:
		e.T0 = p.tok("[")
		p.expr(e.A)
		p.expr(e.B)
		e.T1 = p.tok("]")
	case XInfix:
		p.expr(e.A)
		e.T0 = e.A.T0
		p.tok(e.Op)
		p.expr(e.B)
		e.T1 = e.B.T1
	}
}

func (p *Printer) allot(a *GAllot) {
	switch a.Kind {
	case AlRemaining:
		a.T0 = p.tok("remaining")
		a.T1 = a.T0
	default:
		p.expr(a.E)
		a.T0, a.T1 = a.E.T0, a.E.T1
	}
}

func (p *Printer) source(s *GSource) {
	switch s.Kind {
	case SrcAccount:
		p.expr(s.E)
		s.T0, s.T1 = s.E.T0, s.E.T1
	case SrcOverdraft:
		p.expr(s.E)
		s.T0 = s.E.T0
		p.tok("allowing")
		if s.Bounded == nil {
			p.tok("unbounded")
			s.T1 = p.tok("overdraft")
		} else {
			p.tok("overdraft")
			p.tok("up")
			p.tok("to")
			p.expr(s.Bounded)
			s.T1 = s.Bounded.T1
		}
	case SrcInorder:
		s.T0 = p.tok("{")
		for _, x := range s.Subs {
			p.source(x)
		}
		s.T1 = p.tok("}")
	case SrcAllot:
		s.T0 = p.tok("{")
		for _, it := range s.Items {
			p.allot(it.Allot)
			it.T0 = it.Allot.T0
			p.tok("from")
			p.source(it.From)
			it.T1 = it.From.T1
		}
		s.T1 = p.tok("}")
	case SrcCapped:
		s.T0 = p.tok("max")
		p.expr(s.Cap)
		p.tok("from")
		p.source(s.From)
		s.T1 = s.From.T1
	}
}

func (p *Printer) kod(k *GKod) (int, int) {
	if k.Kept {
		k.T0 = p.tok("kept")
		k.T1 = k.T0
		return k.T0, k.T1
	}
	t0 := p.tok("to")
	p.dest(k.To)
	return t0, k.To.T1
}

func (p *Printer) dest(d *GDest) {
	switch d.Kind {
	case DstAccount:
		p.expr(d.E)
		d.T0, d.T1 = d.E.T0, d.E.T1
	case DstInorder:
		d.T0 = p.tok("{")
		for _, c := range d.Clauses {
			c.T0 = p.tok("max")
			p.expr(c.Cap)
			_, c.T1 = p.kod(c.To)
		}
		p.tok("remaining")
		p.kod(d.Remaining)
		d.T1 = p.tok("}")
	case DstAllot:
		d.T0 = p.tok("{")
		for _, it := range d.Items {
			p.allot(it.Allot)
			it.T0 = it.Allot.T0
			_, it.T1 = p.kod(it.To)
		}
		d.T1 = p.tok("}")
	}
}

func (p *Printer) sent(s *GSent) {
	if s.All {
		s.T0 = p.tok("[")
		p.expr(s.E)
		p.tok("*")
		s.T1 = p.tok("]")
	} else {
		p.expr(s.E)
		s.T0, s.T1 = s.E.T0, s.E.T1
	}
}

func (p *Printer) call(c *GFnCall) {
	c.T0 = p.tok(c.Name)
	c.NameSpan = Span{c.T0, c.T0}
	p.tok("(")
	for i, a := range c.Args {
		if i > 0 {
			p.tok(",")
		}
		p.expr(a)
	}
	c.T1 = p.tok(")")
}

func (p *Printer) stmt(s *GStmt) {
	switch s.Kind {
	case StSend:
		s.T0 = p.tok("send")
		p.sent(s.Sent)
		p.tok("(")
		p.tok("source")
		p.tok("=")
		p.source(s.Src)
		p.tok("destination")
		p.tok("=")
		p.dest(s.Dst)
		s.T1 = p.tok(")")
	case StSave:
		s.T0 = p.tok("save")
		p.sent(s.Sent)
		p.tok("from")
		p.expr(s.Acct)
		s.T1 = s.Acct.T1
	case StCall:
		p.call(s.Call)
		s.T0, s.T1 = s.Call.T0, s.Call.T1
	}
}

func (p *Printer) program(g *GProgram) {
	if len(g.Vars) > 0 || g.VarBlock {
		p.tok("vars")
		p.tok("{")
		for _, v := range g.Vars {
			v.T0 = p.tok(v.Type)
			v.TypeSpan = Span{v.T0, v.T0}
			n := p.tok("$" + v.Name)
			v.NameSpan = Span{n, n}
			v.T1 = n
			if v.Origin != nil {
				p.tok("=")
				p.call(v.Origin)
				v.T1 = v.Origin.T1
			}
		}
		p.tok("}")
	}
	for _, s := range g.Stmts {
		p.stmt(s)
	}
}

// TokPos is the position of a token in the rendered text, in characters (not bytes).
type TokPos struct{ L0, C0, L1, C1 int }

// Render joins the tokens with separators chosen by the layout and returns the text together
// with the position of every token. Layout 0: one space, statements on their own line.
// Layout 1: random whitespace (spaces, tabs, CR/LF) and comments (line, block, nested,
// non-ASCII); every separator starts with a whitespace character.
func Render(toks []string, layout int, r *Rand) (string, []TokPos) {
	var sb strings.Builder
	line, col := 0, 0
	adv := func(s string) {
		for _, ch := range s {
			if ch == '\n' {
				line++
				col = 0
			} else {
				col++
			}
		}
		sb.WriteString(s)
	}
	pos := make([]TokPos, len(toks))
	for i, t := range toks {
		if i > 0 {
			adv(separator(toks[i-1], t, layout, r))
		} else if layout == 1 && r.Chance(1, 3) {
			adv(separator("", t, layout, r))
		}
		l0, c0 := line, col
		adv(t)
		pos[i] = TokPos{l0, c0, line, col}
	}
	if layout == 1 && r.Chance(1, 2) {
		adv(separator("", "", layout, r))
	}
	return sb.String(), pos
}

var commentBodies = []string{"c", "send [USD 1]", "é ü 日本", "😀 𝔘", "a\u00a0b\u2003c", "a * b", "x/y", "\"q\"", "{ }", "remaining kept", "1/2 50%"}

// tightOK: no white space is needed between these two tokens (the text lexes into the same tokens without it):
// after an opening bracket, a comma or `=`; before a closing bracket, a comma, `=` or `(`; and between a lower-case
// word and a token that starts with `$`, `@`, `"`, `[` or `{`.
func tightOK(prev, next string) bool {
	if prev == "" || next == "" {
		return false
	}
	switch prev {
	case "(", "[", "{", ",", "=":
		return true
	}
	switch next {
	case ")", "]", "}", ",", "=", "(":
		return true
	}
	if strings.Trim(prev, "abcdefghijklmnopqrstuvwxyz_") == "" {
		switch next[0] {
		case '$', '@', '"', '[', '{':
			return true
		}
	}
	return false
}

func separator(prev, next string, layout int, r *Rand) string {
	if layout == 2 {
		// as few blanks as the lexer allows
		if tightOK(prev, next) {
			return ""
		}
		if prev == "" {
			return ""
		}
		return " "
	}
	if layout == 0 {
		if next == "send" || next == "save" || next == "set_tx_meta" || next == "set_account_meta" || (prev == "}" && next != ")" && next != "}" && next != "from" && next != "to" && next != "remaining" && next != "max" && next != "kept" && next != "destination") {
			return "\n"
		}
		return " "
	}
	ws := []string{" ", " ", " ", "  ", "\t", "\n", "\r\n", " \n  ", "\n\n", "\r", " \r"} // a lone CR is white space, not a line break
	s := ws[r.Intn(len(ws))]
	for r.Chance(1, 4) {
		b := commentBodies[r.Intn(len(commentBodies))]
		switch r.Intn(3) {
		case 0:
			s += "/* " + b + " */"
		case 1:
			s += "/* " + b + " /* " + commentBodies[r.Intn(len(commentBodies))] + " */ */"
		default:
			s += "// " + b + "\n"
		}
		s += ws[r.Intn(len(ws))]
	}
	return s
}

// ---------------------------------------------------------------------------------------------
// Random generation.

type GenCfg struct {
	MaxDepth   int
	MaxStmts   int
	IllTyped   int  // per mille: probability that one expression position gets a value of another type
	BadAllot   int  // per mille: allotment whose portions do not sum to one
	SendAll    int  // per mille of send statements
	Saves      bool // save statements
	Calls      bool // set_tx_meta / set_account_meta statements
	Origins    bool // variables with meta()/balance()/overdraft() origins
	Layout     int
	HugeVars   bool // variables holding numbers beyond 2^64
	SrcOnly    bool // destination is always a plain account (C04)
	DstOnly    bool // source is always @world (C05, C06)
	OneSend    bool // exactly one send statement (optionally preceded by saves)
	NegCaps    int  // per mille of caps that are negative
	WorldProb  int  // per mille of account positions that are @world
	UnbVarProb int  // per mille
	Hostile    int  // per mille of account variable values that are not account names
	Garbage    int  // per mille of variable values that are arbitrary text
	LeadSaves  bool // the script starts with one to three save statements
	OtherAssetLead bool // the script starts with a send of ANOTHER asset from one of the main send's source accounts
	FreePrefix     bool // OneSend profiles: one to three unrestricted statements (sends of any shape, saves) come first
	SelfLead       bool // the script starts with a send whose source is also its destination (one of the main send's source accounts)
	SmallPool  bool // only three account names: repetition within one source becomes the norm
	NoWorldVars  bool // account variables are never bound to "world"
	OutOfRangeLits bool // number literals one past the ends of the int range (parse error on the pinned tree: F-D10)
	WorldSub     bool // some mentions of @world are look-alikes: @world:fees, @worldwide (ordinary accounts)
	NumberSpellings bool // number literals with leading zeros / explicit minus zero (parser properties)
	CallWeight   int  // weight of set_tx_meta / set_account_meta statements (default 18, sends weigh 70)
	LiteralSaves bool // save statements use literal amounts and accounts only
	OriginProb int    // n: one new variable in n gets an origin (default 4)
	Directed   string // "" or the name of a directed template (gen_directed.go)
	KeptBias   bool // ordered destinations keep amounts close to partial sums of the source balances
}

var accountPool = []string{"a", "b", "c", "d", "users:001", "e-x_1"}
var assetPool = []string{"USD", "EUR", "COIN/2"}
var typeNames = []string{"monetary", "account", "portion", "asset", "number", "string"}

type varInfo struct {
	name, typ string
	raw       string // value given in the variables map ("" when the variable has an origin)
	hasOrigin bool
}

type Gen struct {
	r       *Rand
	cfg     GenCfg
	prog    *GProgram
	vars    []varInfo
	rawVars map[string]string
	bal     map[string]map[string]*big.Int
	meta    map[string]map[string]string
	asset   string // asset of the statement being generated
	flag    bool
	nvar    int
	amounts []*big.Int // interesting amounts seen so far (balances, caps)
	shadow   map[string]map[string]*big.Int // rough running balances, to keep later statements affordable
	partials []*big.Int // partial sums of what the sources of the current send can give
}

func NewGen(r *Rand, cfg GenCfg) *Gen {
	g := &Gen{r: r, cfg: cfg, prog: &GProgram{}, rawVars: map[string]string{}, bal: map[string]map[string]*big.Int{}, meta: map[string]map[string]string{}}
	// balance sheet first: amounts in the script are chosen around it
	for _, a := range accountPool {
		for _, c := range assetPool {
			if r.Chance(17, 20) {
				v := r.Amount(nil, false)
				if r.Chance(1, 2) {
					v.Add(v, bi(int64(r.Intn(150))))
				}
				if r.Chance(1, 8) {
					v.Neg(v)
				}
				if g.bal[a] == nil {
					g.bal[a] = map[string]*big.Int{}
				}
				g.bal[a][c] = v
				g.amounts = append(g.amounts, new(big.Int).Abs(v))
			}
		}
	}
	g.shadow = map[string]map[string]*big.Int{}
	for a, m := range g.bal {
		g.shadow[a] = map[string]*big.Int{}
		for c, v := range m {
			g.shadow[a][c] = new(big.Int).Set(v)
		}
	}
	if r.Chance(1, 10) {
		if g.bal["world"] == nil {
			g.bal["world"] = map[string]*big.Int{}
		}
		g.bal["world"]["USD"] = bi(int64(r.Intn(50)))
	}
	return g
}

func (g *Gen) freshName() string {
	g.nvar++
	names := []string{"x", "y", "acc", "amt", "p", "s_1", "k", "m", "n", "q", "dest", "src", "fee", "v_a", "w"}
	if g.nvar <= len(names) {
		return names[g.nvar-1]
	}
	return fmt.Sprintf("v%d", g.nvar)
}

func (g *Gen) account() string {
	if g.r.Intn(1000) < g.cfg.WorldProb {
		if g.cfg.WorldSub && g.r.Chance(1, 2) {
			return g.r.Pick([]string{"world:fees", "world:a", "worldwide", "users:world", "World", "WORLD", "wOrld", "World", "WORLD"}) // NOT the world account
		}
		return "world"
	}
	if g.cfg.SmallPool {
		return g.r.Pick(accountPool[:3])
	}
	return g.r.Pick(accountPool)
}

// portionText returns a literal spelling of num/den (den > 0), either as a ratio or, when
// possible, as a percentage.
func (g *Gen) portionText(num, den *big.Int) string {
	if g.r.Chance(1, 12) {
		// same value, written with very long numerals (beyond 64 bits)
		if g.r.Chance(1, 2) {
			f := new(big.Int).Add(pow2(uint(60+g.r.Intn(10))), bi(int64(g.r.Intn(5))))
			return new(big.Int).Mul(num, f).String() + "/" + new(big.Int).Mul(den, f).String()
		}
		for k := 0; k <= 3; k++ {
			scale := new(big.Int).Exp(bi(10), bi(int64(k+2)), nil)
			q, m := new(big.Int).QuoRem(new(big.Int).Mul(num, scale), den, new(big.Int))
			if m.Sign() == 0 {
				s := q.String()
				for len(s) < k+1 {
					s = "0" + s
				}
				zeros := strings.Repeat("0", 15+g.r.Intn(8))
				return s[:len(s)-k] + "." + s[len(s)-k:] + zeros + "%"
			}
		}
	}
	// percentage when den divides 10^k*100 for a small k
	if g.r.Chance(1, 2) {
		for k := 0; k <= 3; k++ {
			scale := new(big.Int).Exp(bi(10), bi(int64(k+2)), nil)
			q, m := new(big.Int).QuoRem(new(big.Int).Mul(num, scale), den, new(big.Int))
			if m.Sign() == 0 {
				s := q.String()
				for len(s) < k+1 {
					s = "0" + s
				}
				if k == 0 {
					if g.r.Chance(1, 6) {
						s = "0" + s // leading zero
					}
					if g.r.Chance(1, 6) {
						return s + "." + strings.Repeat("0", 1+g.r.Intn(3)) + "%" // 50.0%, 50.00%
					}
					return s + "%"
				}
				ip, fp := s[:len(s)-k], s[len(s)-k:]
				if g.r.Chance(1, 6) {
					ip = "0" + ip
				}
				if g.r.Chance(1, 4) {
					fp += strings.Repeat("0", 1+g.r.Intn(2)) // 2.50%, 12.500%
				}
				return ip + "." + fp + "%"
			}
		}
	}
	n, d := num.String(), den.String()
	if g.r.Chance(1, 8) {
		d = "0" + d
	}
	if g.r.Chance(1, 8) {
		n = "0" + n
	}
	switch g.r.Intn(5) {
	case 0:
		return n + " /" + d
	case 1:
		return n + "/ " + d
	case 2:
		return n + " / " + d
	}
	return n + "/" + d
}

func (g *Gen) rawValue(typ string) string {
	if g.cfg.Garbage > 0 && g.r.Intn(1000) < g.cfg.Garbage {
		return g.r.Pick([]string{"", "", "", " ", "+", "-", "abc", "12", "-7", "+5", "USD", "USD 10", "USD  10", "USD 1 0", "USD ten", "10 USD", "1/2", "1/0", "3/2",
			"50%", "150%", "1.5%", ".5%", "5.%", "0x10", "1e3", "1_000", "99999999999999999999999999", "world", "a:b", "é", "USD -5", " 5", "5 "})
	}
	switch typ {
	case "account":
		if g.cfg.Hostile > 0 && g.r.Intn(1000) < g.cfg.Hostile {
			return g.r.Pick([]string{"", "<kept>", "a b", "@a", "a:", ":a", "a::b", "é", "a\n", "world ", "-"})
		}
		if g.cfg.NoWorldVars {
			return g.r.Pick(accountPool)
		}
		return g.account()
	case "asset":
		if g.r.Chance(19, 20) {
			return g.asset
		}
		return g.r.Pick(assetPool)
	case "number":
		if g.cfg.HugeVars {
			return g.spellNumber(g.r.Amount(g.amounts, g.r.Chance(1, 8)))
		}
		return g.spellNumber(bi(int64(g.r.Intn(40))))
	case "monetary":
		a := g.asset
		if g.r.Chance(1, 25) {
			a = g.r.Pick(assetPool)
		}
		return a + " " + g.spellNumber(g.r.Amount(g.amounts, g.r.Chance(1, 20)))
	case "portion":
		d := int64(1 + g.r.Intn(8))
		n := int64(g.r.Intn(int(d) + 1))
		return g.portionText(bi(n), bi(d))
	case "string":
		return g.r.Pick([]string{"hello", "k", "", "a b", "é", "x\"y", "1/2", "USD 10"})
	}
	return "?"
}

// spellNumber writes a number in base ten, one time in eight with leading zeros (same value: the
// texts of variables are read in base ten whatever their spelling).
func (g *Gen) spellNumber(n *big.Int) string {
	if !g.r.Chance(1, 8) {
		return n.String()
	}
	z := strings.Repeat("0", 1+g.r.Intn(3))
	if n.Sign() < 0 {
		return "-" + z + new(big.Int).Neg(n).String()
	}
	return z + n.String()
}

// declare appends a declaration (arguments of the origin must be generated before calling).
func (g *Gen) declare(typ string) string {
	name := g.freshName()
	vd := &GVarDecl{Type: typ, Name: name}
	vi := varInfo{name: name, typ: typ}
	if g.cfg.Origins && g.r.Chance(1, max(g.cfg.OriginProb, 1)*boolInt(g.cfg.OriginProb > 0)+4*boolInt(g.cfg.OriginProb == 0)) {
		switch {
		case typ == "monetary" && g.r.Chance(2, 3):
			fn := "balance"
			if g.r.Chance(1, 4) {
				fn = "overdraft"
			}
			save := g.cfg.IllTyped
			acct := g.exprOf("account", 0)
			asset := g.exprOf("asset", 0)
			g.cfg.IllTyped = save
			vd.Origin = &GFnCall{Name: fn, Args: []*GExpr{acct, asset}}
			vi.hasOrigin = true
		default:
			acct := g.r.Pick(accountPool)
			key := "k_" + name
			if g.r.Chance(1, 6) {
				key = g.r.Pick([]string{"k", "fee"}) // shared keys: two variables may read the same text
			}
			if g.meta[acct] == nil {
				g.meta[acct] = map[string]string{}
			}
			if !g.r.Chance(1, 12) { // sometimes the metadata is missing
				g.meta[acct][key] = g.rawValue(typ)
			} else {
				delete(g.meta[acct], key)
			}
			vd.Origin = &GFnCall{Name: "meta", Args: []*GExpr{{Kind: XAccount, S: acct}, {Kind: XString, S: key}}}
			vi.hasOrigin = true
		}
	}
	if !vi.hasOrigin {
		vi.raw = g.rawValue(typ)
		if !g.r.Chance(1, 150) { // sometimes the variable is missing from the map
			g.rawVars[name] = vi.raw
		}
	}
	g.prog.Vars = append(g.prog.Vars, vd)
	g.vars = append(g.vars, vi)
	return name
}

func (g *Gen) varOf(typ string) *GExpr {
	var cands []string
	for _, v := range g.vars {
		if v.typ != typ {
			continue
		}
		// asset-carrying variables are reused only when they carry the statement's asset
		// (otherwise most scripts end in a currency mismatch)
		if typ == "asset" && !v.hasOrigin && v.raw != g.asset && !g.r.Chance(1, 10) {
			continue
		}
		if typ == "monetary" && !v.hasOrigin && !strings.HasPrefix(v.raw, g.asset+" ") && !g.r.Chance(1, 10) {
			continue
		}
		cands = append(cands, v.name)
	}
	if len(cands) > 0 && g.r.Chance(3, 5) {
		return &GExpr{Kind: XVar, S: g.r.Pick(cands)}
	}
	if len(g.vars) >= 8 && len(cands) > 0 {
		return &GExpr{Kind: XVar, S: g.r.Pick(cands)}
	}
	return &GExpr{Kind: XVar, S: g.declare(typ)}
}

func (g *Gen) numberLit() *GExpr {
	var n *big.Int
	switch g.r.Weighted(50, 30, 10, 10) {
	case 0:
		n = bi(int64(g.r.Intn(20)))
	case 1:
		n = g.r.Amount(g.amounts, false)
	case 2:
		n = bi(-int64(g.r.Intn(10)))
	default:
		n = bi(int64(g.r.Intn(100000)))
	}
	// literals must fit in an int (finding F-D10); larger amounts go through variables
	if !n.IsInt64() {
		n = bi(int64(g.r.Intn(1000)))
	}
	if g.r.Chance(1, 40) || (g.cfg.OutOfRangeLits && g.r.Chance(1, 12)) {
		// the ends of the int range, and their neighbours
		n = new(big.Int).Set([]*big.Int{new(big.Int).Sub(pow2(63), bi(1)), new(big.Int).Neg(pow2(63)), new(big.Int).Sub(pow2(63), bi(2)),
			new(big.Int).Add(new(big.Int).Neg(pow2(63)), bi(1)), pow2(62), pow2(32)}[g.r.Intn(6)])
		if g.cfg.OutOfRangeLits && g.r.Chance(1, 3) {
			// one past the end: reported as a parse error (finding F-D10), never silently saturated
			n = new(big.Int).Set([]*big.Int{pow2(63), new(big.Int).Sub(new(big.Int).Neg(pow2(63)), bi(1)), new(big.Int).Add(pow2(63), bi(int64(g.r.Intn(1000))))}[g.r.Intn(3)])
		}
	}
	e := &GExpr{Kind: XNumber, N: n}
	if g.cfg.NumberSpellings && g.r.Chance(1, 5) {
		// same value, written with leading zeros
		z := strings.Repeat("0", 1+g.r.Intn(3))
		if n.Sign() < 0 {
			e.NumText = "-" + z + new(big.Int).Neg(n).String()
		} else {
			e.NumText = z + n.String()
		}
	}
	return e
}

func (g *Gen) exprOf(typ string, depth int) *GExpr {
	if typ != "any" && g.r.Intn(1000) < g.cfg.IllTyped {
		other := g.r.Pick(typeNames)
		if other != typ {
			save := g.cfg.IllTyped
			g.cfg.IllTyped = 0
			e := g.exprOf(other, depth)
			g.cfg.IllTyped = save
			return e
		}
	}
	if typ == "any" {
		if depth > 0 && g.r.Chance(1, 4) {
			// sums and differences in untyped positions, variables on either side
			t := g.r.Pick([]string{"number", "monetary"})
			mk := func() *GExpr {
				if g.r.Chance(1, 2) {
					return g.varOf(t)
				}
				return g.exprOf(t, depth-1)
			}
			return mkInfix(g.r.Pick([]string{"+", "-"}), mk(), mk())
		}
		typ = g.r.Pick(typeNames)
	}
	switch typ {
	case "account":
		if g.r.Chance(3, 5) {
			return &GExpr{Kind: XAccount, S: g.account()}
		}
		return g.varOf("account")
	case "asset":
		if g.r.Chance(7, 10) {
			if g.r.Chance(49, 50) {
				return &GExpr{Kind: XAsset, S: g.asset}
			}
			return &GExpr{Kind: XAsset, S: g.r.Pick(assetPool)}
		}
		return g.varOf("asset")
	case "number":
		switch g.r.Weighted(60, 25, 15) {
		case 0:
			return g.numberLit()
		case 1:
			return g.varOf("number")
		default:
			if depth <= 0 {
				return g.numberLit()
			}
			op := "+"
			if g.r.Chance(1, 2) {
				op = "-"
			}
			return mkInfix(op, g.exprOf("number", depth-1), g.exprOf("number", depth-1))
		}
	case "monetary":
		switch g.r.Weighted(60, 25, 15) {
		case 0:
			return &GExpr{Kind: XMonetary, A: g.exprOf("asset", depth-1), B: g.exprOf("number", depth-1)}
		case 1:
			return g.varOf("monetary")
		default:
			if depth <= 0 {
				return &GExpr{Kind: XMonetary, A: g.exprOf("asset", 0), B: g.exprOf("number", 0)}
			}
			op := "+"
			if g.r.Chance(1, 2) {
				op = "-"
			}
			if g.r.Chance(1, 8) {
				// operands of DIFFERENT assets, one of them possibly zero: a mismatch, whatever the amounts
				other := assetPool[(g.r.Intn(len(assetPool)-1)+1)%len(assetPool)]
				if other == g.asset {
					other = assetPool[0]
					if other == g.asset {
						other = assetPool[1]
					}
				}
				mk := func(a string, zero bool) *GExpr {
					n := bi(int64(g.r.Intn(30)))
					if zero {
						n = bi(0)
					}
					return &GExpr{Kind: XMonetary, A: &GExpr{Kind: XAsset, S: a}, B: &GExpr{Kind: XNumber, N: n}}
				}
				l, r := mk(g.asset, g.r.Chance(1, 2)), mk(other, g.r.Chance(1, 3))
				if g.r.Chance(1, 2) {
					l, r = r, l
				}
				return mkInfix(op, l, r)
			}
			return mkInfix(op, g.exprOf("monetary", depth-1), g.exprOf("monetary", depth-1))
		}
	case "portion":
		if g.r.Chance(1, 14) {
			// a portion written over zero, as a plain value: reported as a bad portion, never a crash
			n := int64(g.r.Intn(4))
			return &GExpr{Kind: XRatio, Text: fmt.Sprintf("%d/0", n), Num: bi(n), Den: bi(0)}
		}
		if g.r.Chance(7, 10) {
			d := int64(1 + g.r.Intn(8))
			n := int64(g.r.Intn(int(d) + 1))
			return g.ratio(bi(n), bi(d))
		}
		return g.varOf("portion")
	case "string":
		if g.r.Chance(7, 10) {
			return &GExpr{Kind: XString, S: g.r.Pick([]string{"k", "k", "k", "key", "key", "hello world", "", "é", "😀", "a😀𝔘b", "non\u00a0breaking", "\u00a0", "em\u2003space\ufeff", "100%", "%d of %s", "2.5%!", "a\\\"b", "fee", "ends with a quote\\\""})}
		}
		return g.varOf("string")
	}
	return g.numberLit()
}

func (g *Gen) ratio(num, den *big.Int) *GExpr {
	return &GExpr{Kind: XRatio, Text: g.portionText(num, den), Num: num, Den: den}
}

// cap / overdraft expressions: monetary of the statement's asset, around the known amounts
func (g *Gen) capExpr(depth int) *GExpr {
	if g.cfg.KeptBias && len(g.partials) > 0 && g.r.Chance(1, 2) {
		n := new(big.Int).Add(g.partials[g.r.Intn(len(g.partials))], bi(int64(g.r.Intn(5)-2)))
		if n.Sign() >= 0 && n.IsInt64() {
			return &GExpr{Kind: XMonetary, A: &GExpr{Kind: XAsset, S: g.asset}, B: &GExpr{Kind: XNumber, N: n}}
		}
	}
	if g.r.Chance(1, 4) {
		return g.exprOf("monetary", depth)
	}
	n := g.r.Amount(g.amounts, false)
	if !n.IsInt64() {
		n = bi(int64(g.r.Intn(100)))
	}
	if g.r.Intn(1000) < g.cfg.NegCaps {
		n = bi(-int64(1 + g.r.Intn(9)))
	}
	return &GExpr{Kind: XMonetary, A: g.exprOf("asset", 0), B: &GExpr{Kind: XNumber, N: n}}
}

// allotment portions: k clauses summing to one (or not, BadAllot per mille)
func (g *Gen) allots(k int) []*GAllot {
	dens := []int64{2, 3, 4, 5, 6, 7, 8, 10, 12, 100, 1000, 3000}
	d := dens[g.r.Intn(len(dens))]
	parts := make([]int64, k)
	left := d
	for i := 0; i < k-1; i++ {
		parts[i] = int64(g.r.Intn(int(left) + 1))
		if g.r.Chance(1, 3) {
			parts[i] = parts[i] / 2
		}
		left -= parts[i]
	}
	parts[k-1] = left
	if g.r.Intn(1000) < g.cfg.BadAllot {
		parts[g.r.Intn(k)] += int64(1 + g.r.Intn(int(d)))
	}
	out := make([]*GAllot, k)
	for i := range parts {
		out[i] = &GAllot{Kind: AlRatio, E: g.ratio(bi(parts[i]), bi(d))}
	}
	// a remaining clause (usually last)
	if g.r.Chance(2, 5) {
		i := k - 1
		if g.r.Chance(1, 8) {
			i = g.r.Intn(k)
		}
		out[i] = &GAllot{Kind: AlRemaining}
	}
	// a portion variable holding the value of its clause
	if g.r.Chance(1, 4) {
		i := g.r.Intn(k)
		if out[i].Kind == AlRatio {
			name := g.freshName()
			raw := g.portionText(out[i].E.Num, out[i].E.Den)
			g.prog.Vars = append(g.prog.Vars, &GVarDecl{Type: "portion", Name: name})
			g.vars = append(g.vars, varInfo{name: name, typ: "portion", raw: raw})
			g.rawVars[name] = raw
			out[i] = &GAllot{Kind: AlVar, E: &GExpr{Kind: XVar, S: name}}
		}
	}
	return out
}

func (g *Gen) source(depth int, sendAll bool) *GSource {
	if g.cfg.DstOnly {
		return &GSource{Kind: SrcAccount, E: &GExpr{Kind: XAccount, S: "world"}}
	}
	w := []int{40, 14, 18, 12, 16}
	if depth <= 0 {
		w = []int{70, 30, 0, 0, 0}
	}
	if sendAll {
		w[3] = w[3] / 6 // allotments are rejected under send-all: keep a few
	}
	switch g.r.Weighted(w...) {
	case 0:
		return &GSource{Kind: SrcAccount, E: g.exprOf("account", 0)}
	case 1:
		s := &GSource{Kind: SrcOverdraft, E: g.exprOf("account", 0)}
		unb := 350
		if sendAll {
			unb = 60
		}
		if g.r.Intn(1000) >= unb {
			s.Bounded = g.capExpr(depth - 1)
		}
		return s
	case 2:
		n := g.r.Weighted(5, 15, 45, 35) // 0..3 sub-sources
		s := &GSource{Kind: SrcInorder}
		for i := 0; i < n; i++ {
			s.Subs = append(s.Subs, g.source(depth-1, sendAll))
		}
		return s
	case 3:
		k := 1 + g.r.Weighted(15, 50, 25, 10)
		s := &GSource{Kind: SrcAllot}
		for _, a := range g.allots(k) {
			s.Items = append(s.Items, &GSrcItem{Allot: a, From: g.source(depth-1, false)})
		}
		return s
	default:
		return &GSource{Kind: SrcCapped, Cap: g.capExpr(depth - 1), From: g.source(depth-1, false)}
	}
}

func (g *Gen) kod(depth int) *GKod {
	if g.r.Chance(1, 4) || (g.cfg.KeptBias && g.r.Chance(1, 3)) {
		return &GKod{Kept: true}
	}
	return &GKod{To: g.dest(depth - 1)}
}

func (g *Gen) dest(depth int) *GDest {
	if g.cfg.SrcOnly {
		return &GDest{Kind: DstAccount, E: &GExpr{Kind: XAccount, S: "sink"}}
	}
	w := []int{50, 30, 20}
	if depth <= 0 {
		w = []int{100, 0, 0}
	}
	switch g.r.Weighted(w...) {
	case 0:
		return &GDest{Kind: DstAccount, E: g.exprOf("account", 0)}
	case 1:
		d := &GDest{Kind: DstInorder}
		n := 1 + g.r.Weighted(50, 35, 15)
		for i := 0; i < n; i++ {
			d.Clauses = append(d.Clauses, &GClause{Cap: g.capExpr(depth - 1), To: g.kod(depth)})
		}
		d.Remaining = g.kod(depth)
		return d
	default:
		k := 1 + g.r.Weighted(15, 50, 25, 10)
		d := &GDest{Kind: DstAllot}
		for _, a := range g.allots(k) {
			d.Items = append(d.Items, &GDestItem{Allot: a, To: g.kod(depth)})
		}
		return d
	}
}

// estimateSupply: what the bounded leaves of a source could give at most (caps ignored), and
// whether some leaf is unbounded. Only used to centre the sent amount on the interesting threshold.
func (g *Gen) estimateSupply(s *GSource) (*big.Int, bool) {
	acct := func(e *GExpr) string {
		switch e.Kind {
		case XAccount:
			return e.S
		case XVar:
			return g.rawVars[e.S]
		}
		return ""
	}
	capOf := func(e *GExpr) *big.Int {
		if e != nil && e.Kind == XMonetary && e.B.Kind == XNumber {
			if e.B.N.Sign() < 0 {
				return new(big.Int)
			}
			return e.B.N
		}
		return nil
	}
	var walk func(s *GSource) (*big.Int, bool)
	walk = func(s *GSource) (*big.Int, bool) {
		switch s.Kind {
		case SrcAccount, SrcOverdraft:
			a := acct(s.E)
			if a == "world" || (s.Kind == SrcOverdraft && s.Bounded == nil) {
				return new(big.Int), true
			}
			b := new(big.Int)
			if v, ok := g.shadow[a][g.asset]; ok {
				b.Set(v)
			}
			if s.Kind == SrcOverdraft {
				if c := capOf(s.Bounded); c != nil {
					b.Add(b, c)
				}
			}
			if b.Sign() < 0 {
				b.SetInt64(0)
			}
			return b, false
		case SrcInorder:
			total := new(big.Int)
			unb := false
			for _, x := range s.Subs {
				t, u := walk(x)
				total.Add(total, t)
				unb = unb || u
			}
			return total, unb
		case SrcAllot:
			var min *big.Int
			for _, it := range s.Items {
				t, u := walk(it.From)
				if u {
					continue
				}
				if min == nil || t.Cmp(min) < 0 {
					min = t
				}
			}
			if min == nil {
				return new(big.Int), true
			}
			return min, false
		case SrcCapped:
			t, u := walk(s.From)
			c := capOf(s.Cap)
			if c == nil {
				return t, u
			}
			if u || c.Cmp(t) < 0 {
				return new(big.Int).Set(c), false
			}
			return t, false
		}
		return new(big.Int), false
	}
	return walk(s)
}

// deduct approximates the effect of a send on the running balances (greedy over the leaves)
func (g *Gen) deduct(src *GSource, n *big.Int) {
	left := new(big.Int).Set(n)
	for _, a := range g.sourceAccounts(src) {
		if left.Sign() <= 0 {
			return
		}
		v, ok := g.shadow[a][g.asset]
		if !ok || v.Sign() <= 0 {
			continue
		}
		take := new(big.Int).Set(v)
		if take.Cmp(left) > 0 {
			take.Set(left)
		}
		v.Sub(v, take)
		left.Sub(left, take)
	}
}

func (g *Gen) sendAmount(supply *big.Int, unbounded bool) *big.Int {
	switch g.r.Weighted(40, 25, 12, 6, 17) {
	case 0: // within the supply
		if !unbounded {
			return g.r.BigBelow(new(big.Int).Add(supply, bi(1)))
		}
		return bi(int64(g.r.Intn(30)))
	case 1: // the threshold itself, and its neighbours
		if unbounded {
			return g.r.Amount(g.amounts, false)
		}
		v := new(big.Int).Add(supply, bi(int64(g.r.Intn(3)-1)))
		if v.Sign() < 0 {
			v.SetInt64(0)
		}
		return v
	case 2:
		if unbounded || supply.Cmp(bi(3)) >= 0 {
			return bi(int64(g.r.Intn(4)))
		}
		return bi(0)
	case 3:
		return g.r.Amount(g.amounts, false)
	default:
		// a fraction of the supply
		return new(big.Int).Div(supply, bi(int64(1+g.r.Intn(4))))
	}
}

func (g *Gen) sendStmt() *GStmt {
	g.asset = assetPool[g.r.Weighted(80, 12, 8)]
	all := g.r.Intn(1000) < g.cfg.SendAll
	st := &GStmt{Kind: StSend}
	st.Src = g.source(g.cfg.MaxDepth, all)
	if all {
		st.Sent = &GSent{All: true, E: g.exprOf("asset", 0)}
	} else {
		supply, unb := g.estimateSupply(st.Src)
		var e *GExpr
		if g.r.Chance(8, 10) {
			n := g.sendAmount(supply, unb)
			g.deduct(st.Src, n)
			if !n.IsInt64() || g.r.Chance(1, 8) {
				// beyond int64 (or just for variety): through a variable
				name := g.freshName()
				raw := g.asset + " " + n.String()
				g.prog.Vars = append(g.prog.Vars, &GVarDecl{Type: "monetary", Name: name})
				g.vars = append(g.vars, varInfo{name: name, typ: "monetary", raw: raw})
				g.rawVars[name] = raw
				e = &GExpr{Kind: XVar, S: name}
			} else {
				if g.r.Chance(1, 60) {
					n = bi(-int64(1 + g.r.Intn(5)))
				}
				e = &GExpr{Kind: XMonetary, A: g.exprOf("asset", 0), B: &GExpr{Kind: XNumber, N: n}}
			}
		} else {
			e = g.exprOf("monetary", 2)
		}
		st.Sent = &GSent{E: e}
	}
	// partial sums of the positive balances of the source accounts, in order: caps and kept
	// amounts close to them split shares across senders in every possible way
	g.partials = nil
	run := new(big.Int)
	for _, a := range g.sourceAccounts(st.Src) {
		if b, ok := g.bal[a][g.asset]; ok && b.Sign() > 0 {
			g.partials = append(g.partials, new(big.Int).Set(b))
			run = new(big.Int).Add(run, b)
			g.partials = append(g.partials, new(big.Int).Set(run))
		}
	}
	st.Dst = g.dest(g.cfg.MaxDepth)
	return st
}

func boolInt(b bool) int {
	if b {
		return 1
	}
	return 0
}

func (g *Gen) saveStmt() *GStmt {
	g.asset = assetPool[g.r.Weighted(80, 12, 8)]
	st := &GStmt{Kind: StSave}
	if g.cfg.LiteralSaves {
		a := g.account()
		if a == "world" {
			a = "a"
		}
		st.Acct = &GExpr{Kind: XAccount, S: a}
		if g.r.Chance(1, 4) {
			st.Sent = &GSent{All: true, E: &GExpr{Kind: XAsset, S: g.asset}}
		} else {
			n := bi(int64(g.r.Intn(30)))
			if b, ok := g.bal[a][g.asset]; ok && g.r.Chance(1, 2) {
				n = new(big.Int).Add(new(big.Int).Abs(b), bi(int64(g.r.Intn(7)-3)))
				if n.Sign() < 0 || !n.IsInt64() {
					n = bi(int64(g.r.Intn(12)))
				}
			}
			st.Sent = &GSent{E: &GExpr{Kind: XMonetary, A: &GExpr{Kind: XAsset, S: g.asset}, B: &GExpr{Kind: XNumber, N: n}}}
		}
		return st
	}
	if g.r.Chance(1, 4) {
		st.Sent = &GSent{All: true, E: g.exprOf("asset", 0)}
	} else {
		n := g.r.Amount(g.amounts, false)
		if !n.IsInt64() {
			n = bi(int64(g.r.Intn(100)))
		}
		if g.r.Chance(1, 20) {
			n = bi(-int64(1 + g.r.Intn(5)))
		}
		var e *GExpr = &GExpr{Kind: XMonetary, A: g.exprOf("asset", 0), B: &GExpr{Kind: XNumber, N: n}}
		if g.r.Chance(1, 5) {
			e = g.exprOf("monetary", 1)
		}
		st.Sent = &GSent{E: e}
	}
	st.Acct = g.exprOf("account", 0)
	return st
}

func (g *Gen) callStmt() *GStmt {
	c := &GFnCall{}
	switch g.r.Weighted(45, 45, 10) {
	case 0:
		c.Name = "set_tx_meta"
		c.Args = []*GExpr{g.exprOf("string", 0), g.exprOf("any", 2)}
	case 1:
		c.Name = "set_account_meta"
		c.Args = []*GExpr{g.exprOf("account", 0), g.exprOf("string", 0), g.exprOf("any", 2)}
		if g.r.Chance(1, 2) {
			// a small set of (account, key) pairs, so that a later statement overrides an earlier one
			c.Args[0] = &GExpr{Kind: XAccount, S: g.r.Pick([]string{"a", "b"})}
			c.Args[1] = &GExpr{Kind: XString, S: g.r.Pick([]string{"k", "key"})}
		}
	default:
		c.Name = g.r.Pick([]string{"set_tx_meta", "set_account_meta", "balance", "meta", "foo", "overdraft"})
		n := g.r.Intn(5)
		for i := 0; i < n; i++ {
			c.Args = append(c.Args, g.exprOf("any", 1))
		}
	}
	return &GStmt{Kind: StCall, Call: c}
}

// sourceAccounts lists the literal (or variable-held) account names of the leaves of a source.
func (g *Gen) sourceAccounts(s *GSource) []string {
	var out []string
	var walk func(s *GSource)
	walk = func(s *GSource) {
		switch s.Kind {
		case SrcAccount, SrcOverdraft:
			a := ""
			if s.E.Kind == XAccount {
				a = s.E.S
			} else if s.E.Kind == XVar {
				a = g.rawVars[s.E.S]
			}
			if a != "" && a != "world" {
				out = append(out, a)
			}
		case SrcInorder:
			for _, x := range s.Subs {
				walk(x)
			}
		case SrcAllot:
			for _, it := range s.Items {
				walk(it.From)
			}
		case SrcCapped:
			walk(s.From)
		}
	}
	walk(s)
	return out
}

// Program generates a whole script according to the configuration.
func (g *Gen) Program() *GProgram {
	g.asset = "USD"
	g.flag = g.r.Chance(1, 2)
	n := 1 + g.r.Intn(g.cfg.MaxStmts)
	if g.cfg.OneSend && g.cfg.FreePrefix {
		// whatever happened before, the judged statement must behave according to the balances left
		saved := g.cfg
		g.cfg.SrcOnly, g.cfg.DstOnly, g.cfg.OneSend = false, false, false
		g.cfg.SendAll = 120
		g.cfg.SmallPool = true
		k := 1 + g.r.Intn(3)
		for i := 0; i < k; i++ {
			if g.r.Chance(3, 4) {
				g.prog.Stmts = append(g.prog.Stmts, g.sendStmt())
			} else {
				g.prog.Stmts = append(g.prog.Stmts, g.saveStmt())
			}
		}
		small := g.cfg.SmallPool
		g.cfg = saved
		g.cfg.SmallPool = small
		g.prog.Stmts = append(g.prog.Stmts, g.sendStmt())
		return g.prog
	}
	if g.cfg.OneSend || g.cfg.LeadSaves {
		// the send is generated first so that the saves that precede it can aim at its sources
		send := g.sendStmt()
		sendAsset := g.asset
		nsave := 0
		if g.cfg.LeadSaves {
			nsave = 1 + g.r.Weighted(50, 35, 15)
		} else if g.cfg.Saves {
			nsave = g.r.Weighted(60, 30, 10)
		}
		targets := g.sourceAccounts(send.Src)
		for i := 0; i < nsave; i++ {
			sv := g.saveStmt()
			if len(targets) > 0 && g.r.Chance(3, 4) {
				a := g.r.Pick(targets)
				g.asset = sendAsset
				sv.Acct = &GExpr{Kind: XAccount, S: a}
				if !sv.Sent.All {
					n := bi(int64(g.r.Intn(12)))
					if b, ok := g.bal[a][sendAsset]; ok && g.r.Chance(2, 3) {
						n = new(big.Int).Add(new(big.Int).Abs(b), bi(int64(g.r.Intn(7)-3)))
						if n.Sign() < 0 || !n.IsInt64() {
							n = bi(int64(g.r.Intn(12)))
						}
					}
					sv.Sent = &GSent{E: &GExpr{Kind: XMonetary, A: &GExpr{Kind: XAsset, S: sendAsset}, B: &GExpr{Kind: XNumber, N: n}}}
				} else {
					sv.Sent = &GSent{All: true, E: &GExpr{Kind: XAsset, S: sendAsset}}
				}
			}
			g.prog.Stmts = append(g.prog.Stmts, sv)
		}
		if g.cfg.OtherAssetLead && len(targets) > 0 {
			// the same account is asked for two assets: a funded send of another asset comes first
			a := g.r.Pick(targets)
			other := "EUR"
			if sendAsset == other {
				other = "COIN/2"
			}
			if g.bal[a] == nil {
				g.bal[a] = map[string]*big.Int{}
			}
			have := int64(3 + g.r.Intn(20))
			g.bal[a][other] = bi(have)
			k := bi(1 + int64(g.r.Intn(int(have))))
			lead := &GStmt{Kind: StSend, Sent: &GSent{E: &GExpr{Kind: XMonetary, A: &GExpr{Kind: XAsset, S: other}, B: &GExpr{Kind: XNumber, N: k}}},
				Src: &GSource{Kind: SrcAccount, E: &GExpr{Kind: XAccount, S: a}}, Dst: &GDest{Kind: DstAccount, E: &GExpr{Kind: XAccount, S: "users:001"}}}
			g.prog.Stmts = append([]*GStmt{lead}, g.prog.Stmts...)
		}
		if g.cfg.SelfLead && len(targets) > 0 {
			// money sent by an account to itself: its balance must be what it was
			a := g.r.Pick(targets)
			k := bi(int64(g.r.Intn(15)))
			if b, ok := g.bal[a][sendAsset]; ok && b.Sign() > 0 && b.IsInt64() && g.r.Chance(2, 3) {
				k = bi(1 + int64(g.r.Intn(int(b.Int64()%1000)+1))%(b.Int64()+1))
			}
			var dst *GDest = &GDest{Kind: DstAccount, E: &GExpr{Kind: XAccount, S: a}}
			if g.r.Chance(1, 3) {
				dst = &GDest{Kind: DstInorder, Clauses: []*GClause{{Cap: &GExpr{Kind: XMonetary, A: &GExpr{Kind: XAsset, S: sendAsset}, B: &GExpr{Kind: XNumber, N: bi(int64(g.r.Intn(5)))}}, To: &GKod{To: &GDest{Kind: DstAccount, E: &GExpr{Kind: XAccount, S: "users:001"}}}}},
					Remaining: &GKod{To: &GDest{Kind: DstAccount, E: &GExpr{Kind: XAccount, S: a}}}}
			}
			lead := &GStmt{Kind: StSend, Sent: &GSent{E: &GExpr{Kind: XMonetary, A: &GExpr{Kind: XAsset, S: sendAsset}, B: &GExpr{Kind: XNumber, N: k}}},
				Src: &GSource{Kind: SrcAccount, E: &GExpr{Kind: XAccount, S: a}}, Dst: dst}
			g.prog.Stmts = append([]*GStmt{lead}, g.prog.Stmts...)
		}
		g.prog.Stmts = append(g.prog.Stmts, send)
		if g.cfg.OneSend {
			return g.prog
		}
	}
	for i := 0; i < n; i++ {
		w := []int{70, 0, 0}
		if g.cfg.Saves {
			w[1] = 18
		}
		if g.cfg.Calls {
			w[2] = 18
			if g.cfg.CallWeight > 0 {
				w[2] = g.cfg.CallWeight
			}
		}
		switch g.r.Weighted(w...) {
		case 0:
			g.prog.Stmts = append(g.prog.Stmts, g.sendStmt())
		case 1:
			g.prog.Stmts = append(g.prog.Stmts, g.saveStmt())
		default:
			g.prog.Stmts = append(g.prog.Stmts, g.callStmt())
		}
	}
	if len(g.prog.Vars) == 0 && g.r.Chance(1, 10) {
		g.prog.VarBlock = true
	}
	return g.prog
}

// sorted keys helpers (canonical output)
func sortedKeys[V any](m map[string]V) []string {
	ks := make([]string, 0, len(m))
	for k := range m {
		ks = append(ks, k)
	}
	sort.Strings(ks)
	return ks
}

// mkInfix builds the tree the text means: the grammar has no parentheses and + and - associate to
// the left, so `a op (b op' c)` is written, and read back, as `(a op b) op' c`.
func mkInfix(op string, a, b *GExpr) *GExpr {
	if b.Kind == XInfix {
		return mkInfix(b.Op, mkInfix(op, a, b.A), b.B)
	}
	return &GExpr{Kind: XInfix, Op: op, A: a, B: b}
}
