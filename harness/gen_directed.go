package main

import (
	"fmt"
	"math/big"
)

// Directed templates: small families of scripts aimed at interactions that the free generator
// reaches only rarely (kept amounts spanning several senders, an account drawn several times with
// others in between, saves followed by overdraft or refills). All numbers still come from the PRNG.

func lit(asset string, n *big.Int) *GExpr {
	return &GExpr{Kind: XMonetary, A: &GExpr{Kind: XAsset, S: asset}, B: &GExpr{Kind: XNumber, N: n}}
}
func acct(a string) *GExpr   { return &GExpr{Kind: XAccount, S: a} }
func srcAcct(a string) *GSource { return &GSource{Kind: SrcAccount, E: acct(a)} }
func dstAcct(a string) *GDest   { return &GDest{Kind: DstAccount, E: acct(a)} }

func (g *Gen) smallBalances(names []string, asset string, max int) *big.Int {
	sum := new(big.Int)
	for _, a := range names {
		v := bi(int64(g.r.Intn(max + 1)))
		if g.r.Chance(1, 10) {
			v = bi(-int64(g.r.Intn(5)))
		}
		if g.bal[a] == nil {
			g.bal[a] = map[string]*big.Int{}
		}
		g.bal[a][asset] = v
		if v.Sign() > 0 {
			sum.Add(sum, v)
		}
	}
	return sum
}

// keptSpan: several plain sources, an ordered destination that keeps an amount somewhere between
// nothing and everything, possibly after / before other clauses.
func (g *Gen) keptSpanProgram() *GProgram {
	asset := "USD"
	g.asset = asset
	k := 2 + g.r.Intn(3)
	names := []string{"a", "b", "c", "d"}[:k]
	if g.r.Chance(1, 4) {
		names[g.r.Intn(k)] = names[0] // a repeated account
	}
	sum := g.smallBalances(names, asset, 12)
	src := &GSource{Kind: SrcInorder}
	for _, a := range names {
		src.Subs = append(src.Subs, srcAcct(a))
	}
	if g.r.Chance(1, 5) {
		src.Subs = append(src.Subs, srcAcct("world"))
	}
	n := new(big.Int).Set(sum)
	if sum.Sign() > 0 && g.r.Chance(1, 2) {
		n = g.r.BigBelow(new(big.Int).Add(sum, bi(1)))
	}
	if g.r.Chance(1, 10) {
		n.Add(n, bi(1))
	}
	dst := &GDest{Kind: DstInorder}
	nclauses := 1 + g.r.Intn(3)
	// partial sums of what the sources hold: a kept amount that ends exactly on a sender boundary
	var bounds []*big.Int
	run := new(big.Int)
	for _, a := range names {
		if b := g.bal[a][asset]; b != nil && b.Sign() > 0 {
			run = new(big.Int).Add(run, b)
			bounds = append(bounds, run)
		}
	}
	for i := 0; i < nclauses; i++ {
		capv := g.r.BigBelow(new(big.Int).Add(n, bi(3)))
		if len(bounds) > 0 && g.r.Chance(1, 3) {
			capv = new(big.Int).Set(bounds[g.r.Intn(len(bounds))])
		}
		var to *GKod
		if g.r.Chance(1, 2) {
			to = &GKod{Kept: true}
		} else {
			to = &GKod{To: dstAcct([]string{"x", "y", "a"}[g.r.Intn(3)])}
		}
		dst.Clauses = append(dst.Clauses, &GClause{Cap: lit(asset, capv), To: to})
	}
	if g.r.Chance(1, 5) {
		dst.Remaining = &GKod{Kept: true}
	} else {
		dst.Remaining = &GKod{To: dstAcct([]string{"x", "z"}[g.r.Intn(2)])}
	}
	g.prog.Stmts = append(g.prog.Stmts, &GStmt{Kind: StSend, Sent: &GSent{E: lit(asset, n)}, Src: src, Dst: dst})
	return g.prog
}

// repeatDraw: an account drawn several times (through caps, overdraft grants or plainly) with other
// accounts in between, and a destination made of several shares.
func (g *Gen) repeatDrawProgram() *GProgram {
	asset := "USD"
	g.asset = asset
	names := []string{"a", "b"}
	sum := g.smallBalances(names, asset, 15)
	src := &GSource{Kind: SrcInorder}
	k := 3 + g.r.Intn(3)
	same := g.r.Chance(1, 4) // one account, three to five times, each time with a grant: the grant is given once
	for i := 0; i < k; i++ {
		a := names[g.r.Intn(2)]
		var s *GSource
		w := []int{40, 35, 15, 10}
		if same {
			a, w = "a", []int{15, 10, 75, 0}
		}
		switch g.r.Weighted(w...) {
		case 0:
			s = srcAcct(a)
		case 1:
			s = &GSource{Kind: SrcCapped, Cap: lit(asset, bi(int64(g.r.Intn(8)))), From: srcAcct(a)}
		case 2:
			s = &GSource{Kind: SrcOverdraft, E: acct(a), Bounded: lit(asset, bi(int64(g.r.Intn(8))))}
		default:
			if g.r.Chance(1, 2) {
				s = &GSource{Kind: SrcCapped, Cap: lit(asset, bi(int64(1+g.r.Intn(6)))), From: srcAcct("world")}
			} else {
				s = &GSource{Kind: SrcOverdraft, E: acct(a)}
			}
		}
		src.Subs = append(src.Subs, s)
	}
	if g.r.Chance(1, 3) {
		src.Subs = append(src.Subs, srcAcct("world"))
	}
	n := g.r.BigBelow(new(big.Int).Add(sum, bi(8)))
	if same {
		src.Subs = append(src.Subs, srcAcct("world"))
		n = new(big.Int).Add(sum, bi(int64(20+g.r.Intn(30))))
	}
	var dst *GDest
	if g.r.Chance(1, 2) {
		dst = &GDest{Kind: DstInorder}
		for i := 0; i < 1+g.r.Intn(3); i++ {
			dst.Clauses = append(dst.Clauses, &GClause{Cap: lit(asset, bi(int64(1+g.r.Intn(7)))), To: &GKod{To: dstAcct([]string{"x", "y", "z"}[i%3])}})
		}
		dst.Remaining = &GKod{To: dstAcct("w")}
	} else {
		dst = &GDest{Kind: DstAllot}
		for i, a := range g.allots(2 + g.r.Intn(2)) {
			dst.Items = append(dst.Items, &GDestItem{Allot: a, To: &GKod{To: dstAcct([]string{"x", "y", "z"}[i%3])}})
		}
	}
	sent := &GSent{E: lit(asset, n)}
	if g.r.Chance(1, 6) {
		sent = &GSent{All: true, E: &GExpr{Kind: XAsset, S: asset}}
	}
	g.prog.Stmts = append(g.prog.Stmts, &GStmt{Kind: StSend, Sent: sent, Src: src, Dst: dst})
	return g.prog
}

// saveThenUse: save around the balance, then sends that use the account with an overdraft grant,
// or after it has been refilled.
func (g *Gen) saveThenUseProgram() *GProgram {
	asset := "USD"
	g.asset = asset
	g.smallBalances([]string{"a", "b"}, asset, 20)
	b := g.bal["a"][asset]
	nsaves := 1 + g.r.Intn(2)
	for i := 0; i < nsaves; i++ {
		sv := &GStmt{Kind: StSave, Acct: acct("a")}
		if g.r.Chance(1, 5) {
			sv.Sent = &GSent{All: true, E: &GExpr{Kind: XAsset, S: asset}}
		} else {
			n := new(big.Int).Add(new(big.Int).Abs(b), bi(int64(g.r.Intn(12)-6)))
			if n.Sign() < 0 {
				n = bi(int64(g.r.Intn(5)))
			}
			sv.Sent = &GSent{E: lit(asset, n)}
		}
		g.prog.Stmts = append(g.prog.Stmts, sv)
	}
	if g.r.Chance(1, 2) {
		// refill
		g.prog.Stmts = append(g.prog.Stmts, &GStmt{Kind: StSend, Sent: &GSent{E: lit(asset, bi(int64(g.r.Intn(25))))},
			Src: srcAcct([]string{"world", "b"}[g.r.Intn(2)]), Dst: dstAcct("a")})
	}
	var src *GSource
	switch g.r.Intn(3) {
	case 0:
		src = srcAcct("a")
	case 1:
		src = &GSource{Kind: SrcOverdraft, E: acct("a"), Bounded: lit(asset, bi(int64(g.r.Intn(60))))}
	default:
		src = &GSource{Kind: SrcInorder, Subs: []*GSource{srcAcct("a"), {Kind: SrcOverdraft, E: acct("a"), Bounded: lit(asset, bi(int64(g.r.Intn(30))))}}}
	}
	sent := &GSent{E: lit(asset, bi(int64(g.r.Intn(60))))}
	if g.r.Chance(1, 4) {
		sent = &GSent{All: true, E: &GExpr{Kind: XAsset, S: asset}}
	}
	g.prog.Stmts = append(g.prog.Stmts, &GStmt{Kind: StSend, Sent: sent, Src: src, Dst: dstAcct("c")})
	return g.prog
}

// unboundedThenBounded: an account first drawn without limit (so that its balance is never asked
// for), then used with a bounded overdraft or plainly; the second use must see the first debit.
func (g *Gen) unboundedThenBoundedProgram() *GProgram {
	asset := "USD"
	g.asset = asset
	g.smallBalances([]string{"b"}, asset, 10)
	switch g.r.Intn(3) {
	case 0:
		delete(g.bal, "a")
	case 1:
		g.bal["a"] = map[string]*big.Int{asset: bi(0)}
	default:
		g.bal["a"] = map[string]*big.Int{asset: bi(int64(g.r.Intn(6)))}
	}
	n1 := bi(int64(1 + g.r.Intn(12)))
	g.prog.Stmts = append(g.prog.Stmts, &GStmt{Kind: StSend, Sent: &GSent{E: lit(asset, n1)},
		Src: &GSource{Kind: SrcOverdraft, E: acct("a")}, Dst: dstAcct("c")})
	if g.r.Chance(1, 3) {
		g.prog.Stmts = append(g.prog.Stmts, &GStmt{Kind: StSend, Sent: &GSent{E: lit(asset, bi(int64(g.r.Intn(6))))}, Src: srcAcct("world"), Dst: dstAcct("a")})
	}
	k := bi(int64(g.r.Intn(20)))
	var src *GSource
	if g.r.Chance(2, 3) {
		src = &GSource{Kind: SrcOverdraft, E: acct("a"), Bounded: lit(asset, k)}
	} else {
		src = &GSource{Kind: SrcInorder, Subs: []*GSource{srcAcct("a"), srcAcct("b")}}
	}
	sent := &GSent{E: lit(asset, bi(int64(g.r.Intn(20))))}
	if g.r.Chance(1, 3) {
		sent = &GSent{All: true, E: &GExpr{Kind: XAsset, S: asset}}
	}
	g.prog.Stmts = append(g.prog.Stmts, &GStmt{Kind: StSend, Sent: sent, Src: src, Dst: dstAcct("d")})
	return g.prog
}

// metaOverride: the same metadata keys are written several times, with sends in between.
func (g *Gen) metaOverrideProgram() *GProgram {
	g.asset = "USD"
	g.smallBalances([]string{"a", "b"}, "USD", 30)
	n := 3 + g.r.Intn(4)
	for i := 0; i < n; i++ {
		switch g.r.Weighted(40, 30, 30) {
		case 0:
			g.prog.Stmts = append(g.prog.Stmts, &GStmt{Kind: StCall, Call: &GFnCall{Name: "set_account_meta",
				Args: []*GExpr{acct(g.r.Pick([]string{"a", "b"})), {Kind: XString, S: g.r.Pick([]string{"k", "key"})}, g.exprOf("any", 1)}}})
		case 1:
			g.prog.Stmts = append(g.prog.Stmts, &GStmt{Kind: StCall, Call: &GFnCall{Name: "set_tx_meta",
				Args: []*GExpr{{Kind: XString, S: g.r.Pick([]string{"k", "key"})}, g.exprOf("any", 1)}}})
		default:
			g.prog.Stmts = append(g.prog.Stmts, &GStmt{Kind: StSend, Sent: &GSent{E: lit("USD", bi(int64(g.r.Intn(10))))},
				Src: srcAcct(g.r.Pick([]string{"a", "world"})), Dst: dstAcct("c")})
		}
	}
	if g.r.Chance(1, 3) {
		// a value written, then overwritten by a value that "looks like nothing": the empty string, zero
		acc, key := g.r.Pick([]string{"a", "b"}), g.r.Pick([]string{"k", "key"})
		empty := []*GExpr{{Kind: XString, S: ""}, {Kind: XNumber, N: bi(0)}, lit("USD", bi(0)), {Kind: XString, S: " "}}[g.r.Weighted(55, 15, 15, 15)]
		first := &GStmt{Kind: StCall, Call: &GFnCall{Name: "set_account_meta", Args: []*GExpr{acct(acc), {Kind: XString, S: key}, {Kind: XString, S: "blocked"}}}}
		last := &GStmt{Kind: StCall, Call: &GFnCall{Name: "set_account_meta", Args: []*GExpr{acct(acc), {Kind: XString, S: key}, empty}}}
		if g.r.Chance(1, 3) {
			first = &GStmt{Kind: StCall, Call: &GFnCall{Name: "set_tx_meta", Args: []*GExpr{{Kind: XString, S: key}, {Kind: XString, S: "blocked"}}}}
			last = &GStmt{Kind: StCall, Call: &GFnCall{Name: "set_tx_meta", Args: []*GExpr{{Kind: XString, S: key}, empty}}}
		}
		g.prog.Stmts = append([]*GStmt{first}, g.prog.Stmts...)
		g.prog.Stmts = append(g.prog.Stmts, last)
	}
	return g.prog
}

// worldBalance: the balance of @world (never requested) read through balance() / overdraft(), after
// another origin has made the store answer; the ledger holds a non-zero balance for @world.
func (g *Gen) worldBalanceProgram() *GProgram {
	asset := "USD"
	g.asset = asset
	g.smallBalances([]string{"a", "b"}, asset, 30)
	w := int64(g.r.Intn(60)) - 20
	g.bal["world"] = map[string]*big.Int{asset: bi(w)}
	decl := func(name, fn, account string) {
		g.prog.Vars = append(g.prog.Vars, &GVarDecl{Type: "monetary", Name: name,
			Origin: &GFnCall{Name: fn, Args: []*GExpr{acct(account), {Kind: XAsset, S: asset}}}})
	}
	if g.r.Chance(3, 4) {
		decl("first", "balance", g.r.Pick([]string{"a", "b"}))
	}
	fn := "balance"
	if g.r.Chance(1, 3) {
		fn = "overdraft"
	}
	decl("w", fn, "world")
	use := &GExpr{Kind: XVar, S: "w"}
	switch g.r.Intn(3) {
	case 0:
		g.prog.Stmts = append(g.prog.Stmts, &GStmt{Kind: StSend, Sent: &GSent{E: use}, Src: srcAcct("world"), Dst: dstAcct("c")})
	case 1:
		g.prog.Stmts = append(g.prog.Stmts, &GStmt{Kind: StCall, Call: &GFnCall{Name: "set_tx_meta", Args: []*GExpr{{Kind: XString, S: "k"}, use}}})
	default:
		g.prog.Stmts = append(g.prog.Stmts, &GStmt{Kind: StSend, Sent: &GSent{E: use},
			Src: &GSource{Kind: SrcInorder, Subs: []*GSource{srcAcct("a"), srcAcct("world")}}, Dst: dstAcct("c")})
	}
	if g.r.Chance(1, 2) {
		g.prog.Stmts = append(g.prog.Stmts, &GStmt{Kind: StSave, Sent: &GSent{E: lit(asset, bi(int64(g.r.Intn(10))))}, Acct: acct("world")})
		g.prog.Stmts = append(g.prog.Stmts, &GStmt{Kind: StSend, Sent: &GSent{E: lit(asset, bi(int64(g.r.Intn(10))))}, Src: srcAcct("world"), Dst: dstAcct("d")})
	}
	return g.prog
}

// hugeSum: the amount of a send is a sum / difference of monetary variables whose values do not fit
// in a machine word (the sent value is evaluated more than once by the interpreter: preload, then run).
func (g *Gen) hugeSumProgram() *GProgram {
	asset := "USD"
	g.asset = asset
	two64 := new(big.Int).Lsh(bi(1), 64)
	price := new(big.Int).Add(two64, bi(int64(g.r.Intn(1000))))
	if g.r.Chance(1, 3) {
		price.Lsh(price, uint(1+g.r.Intn(40)))
	}
	fee := bi(int64(1 + g.r.Intn(50)))
	if g.r.Chance(1, 4) {
		fee = new(big.Int).Add(two64, bi(int64(g.r.Intn(9))))
	}
	if g.r.Chance(1, 3) {
		// NUMBER variables around the edge of the machine word, summed inside a monetary: [USD $a + $b + $c]
		edge := []*big.Int{new(big.Int).Sub(pow2(63), bi(1)), pow2(62), pow2(63), new(big.Int).Sub(pow2(64), bi(1)), new(big.Int).Sub(pow2(62), bi(1)), new(big.Int).Neg(pow2(62))}
		a, b := edge[g.r.Intn(len(edge))], edge[g.r.Intn(len(edge))]
		c := bi(int64(g.r.Intn(200)))
		g.prog.Vars = append(g.prog.Vars, &GVarDecl{Type: "number", Name: "na"}, &GVarDecl{Type: "number", Name: "nb"}, &GVarDecl{Type: "number", Name: "nc"})
		g.rawVars["na"], g.rawVars["nb"], g.rawVars["nc"] = a.String(), b.String(), c.String()
		sum := &GExpr{Kind: XInfix, Op: "+", A: &GExpr{Kind: XInfix, Op: "+", A: &GExpr{Kind: XVar, S: "na"}, B: &GExpr{Kind: XVar, S: "nb"}}, B: &GExpr{Kind: XVar, S: "nc"}}
		if g.r.Chance(1, 3) {
			sum = &GExpr{Kind: XInfix, Op: "-", A: &GExpr{Kind: XInfix, Op: "+", A: &GExpr{Kind: XVar, S: "na"}, B: &GExpr{Kind: XVar, S: "nb"}}, B: &GExpr{Kind: XVar, S: "nc"}}
		}
		src := srcAcct("world")
		if g.r.Chance(1, 3) {
			g.bal["a"] = map[string]*big.Int{asset: new(big.Int).Add(new(big.Int).Add(a, b), c)}
			src = srcAcct("a")
		}
		g.prog.Stmts = append(g.prog.Stmts, &GStmt{Kind: StSend, Sent: &GSent{E: &GExpr{Kind: XMonetary, A: &GExpr{Kind: XAsset, S: asset}, B: sum}}, Src: src, Dst: dstAcct("c")})
		if g.r.Chance(1, 2) {
			g.prog.Stmts = append(g.prog.Stmts, &GStmt{Kind: StCall, Call: &GFnCall{Name: "set_tx_meta", Args: []*GExpr{{Kind: XString, S: "sum"}, {Kind: XInfix, Op: "+", A: &GExpr{Kind: XVar, S: "na"}, B: &GExpr{Kind: XVar, S: "nb"}}}}})
		}
		return g.prog
	}
	g.prog.Vars = append(g.prog.Vars, &GVarDecl{Type: "monetary", Name: "price"}, &GVarDecl{Type: "monetary", Name: "fee"})
	g.rawVars["price"] = asset + " " + price.String()
	g.rawVars["fee"] = asset + " " + fee.String()
	op := "+"
	total := new(big.Int).Add(price, fee)
	if g.r.Chance(1, 3) {
		op = "-"
		total = new(big.Int).Sub(price, fee)
	}
	left, right := &GExpr{Kind: XVar, S: "price"}, &GExpr{Kind: XVar, S: "fee"}
	if op == "+" && g.r.Chance(1, 4) {
		left, right = right, left
	}
	amount := &GExpr{Kind: XInfix, Op: op, A: left, B: right}
	// the paying account holds exactly the total, one unit less, or more
	have := new(big.Int).Set(total)
	switch g.r.Intn(4) {
	case 0:
		have.Sub(have, bi(1))
	case 1:
		have.Add(have, fee)
	}
	g.bal["a"] = map[string]*big.Int{asset: have}
	src := srcAcct("a")
	if g.r.Chance(1, 4) {
		src = srcAcct("world")
	}
	g.prog.Stmts = append(g.prog.Stmts, &GStmt{Kind: StSend, Sent: &GSent{E: amount}, Src: src, Dst: dstAcct("c")})
	if g.r.Chance(1, 3) {
		g.prog.Stmts = append(g.prog.Stmts, &GStmt{Kind: StCall, Call: &GFnCall{Name: "set_tx_meta", Args: []*GExpr{{Kind: XString, S: "price"}, {Kind: XVar, S: "price"}}}})
	}
	return g.prog
}

// twoAssets: an account whose balance of one asset is read early (balance() origin), then used as a
// bounded source for that asset and for ANOTHER one: both cells must have been requested.
func (g *Gen) twoAssetsProgram() *GProgram {
	g.asset = "USD"
	x, y := "USD", "EUR"
	if g.r.Chance(1, 2) {
		x, y = y, x
	}
	g.bal["a"] = map[string]*big.Int{x: bi(int64(5 + g.r.Intn(30))), y: bi(int64(5 + g.r.Intn(30)))}
	g.bal["b"] = map[string]*big.Int{x: bi(int64(g.r.Intn(10))), y: bi(int64(g.r.Intn(10)))}
	if g.r.Chance(1, 4) {
		// the store has nothing to say about one asset of @a (absent, or an explicit zero), and @a owes the other
		// one: both are asked for in one query; the debt counts against the grant whatever the answer for the first
		if g.r.Chance(1, 2) {
			x, y = "PTS", "USD" // (so that a sparse store writes its "nothing" as a nil amount)
		}
		debt, grant := int64(5+g.r.Intn(40)), int64(20+g.r.Intn(60))
		g.bal["a"] = map[string]*big.Int{y: bi(-debt)}
		if g.r.Chance(1, 3) {
			g.bal["a"][x] = bi(0)
		}
		zero := &GStmt{Kind: StSend, Sent: &GSent{E: lit(x, bi(0))}, Src: srcAcct("a"), Dst: dstAcct("c")}
		if g.r.Chance(1, 3) {
			zero = &GStmt{Kind: StSave, Sent: &GSent{E: lit(x, bi(0))}, Acct: acct("a")}
		}
		draw := &GStmt{Kind: StSend, Sent: &GSent{E: lit(y, bi(grant+int64(g.r.Intn(20))))},
			Src: &GSource{Kind: SrcInorder, Subs: []*GSource{{Kind: SrcOverdraft, E: acct("a"), Bounded: lit(y, bi(grant))}, srcAcct("world")}}, Dst: dstAcct("c")}
		if g.r.Chance(1, 4) {
			draw = &GStmt{Kind: StSend, Sent: &GSent{All: true, E: &GExpr{Kind: XAsset, S: y}}, Src: &GSource{Kind: SrcOverdraft, E: acct("a"), Bounded: lit(y, bi(grant))}, Dst: dstAcct("c")}
		}
		if g.r.Chance(3, 4) {
			g.prog.Stmts = append(g.prog.Stmts, zero, draw)
		} else {
			g.prog.Stmts = append(g.prog.Stmts, draw, zero)
		}
		return g.prog
	}
	switch g.r.Intn(4) {
	case 0:
		delete(g.bal["a"], x) // the store has nothing to say about the first asset
	case 1:
		g.bal["a"][x] = bi(0)
	}
	if g.r.Chance(3, 4) {
		g.prog.Vars = append(g.prog.Vars, &GVarDecl{Type: "monetary", Name: "seen",
			Origin: &GFnCall{Name: "balance", Args: []*GExpr{acct("a"), {Kind: XAsset, S: x}}}})
		g.prog.Stmts = append(g.prog.Stmts, &GStmt{Kind: StCall, Call: &GFnCall{Name: "set_tx_meta", Args: []*GExpr{{Kind: XString, S: "seen"}, {Kind: XVar, S: "seen"}}}})
	}
	if g.r.Chance(1, 3) {
		// a second origin on the SAME account for the OTHER asset: what is known about one says nothing about the other
		g.prog.Vars = append(g.prog.Vars, &GVarDecl{Type: "monetary", Name: "seen2",
			Origin: &GFnCall{Name: "balance", Args: []*GExpr{acct("a"), {Kind: XAsset, S: y}}}})
		g.prog.Stmts = append(g.prog.Stmts, &GStmt{Kind: StCall, Call: &GFnCall{Name: "set_tx_meta", Args: []*GExpr{{Kind: XString, S: "seen2"}, {Kind: XVar, S: "seen2"}}}})
	}
	send := func(asset string) {
		n := bi(int64(1 + g.r.Intn(12)))
		var src *GSource = srcAcct("a")
		if g.r.Chance(1, 3) {
			src = &GSource{Kind: SrcInorder, Subs: []*GSource{srcAcct("a"), srcAcct("b")}}
		}
		g.prog.Stmts = append(g.prog.Stmts, &GStmt{Kind: StSend, Sent: &GSent{E: lit(asset, n)}, Src: src, Dst: dstAcct("c")})
	}
	send(x)
	send(y)
	if g.r.Chance(1, 3) {
		send(x)
	}
	return g.prog
}

// varReuse: ONE monetary variable used in several places of a script (two saves, two caps, two
// sends): whatever one use does to the number must not be visible to the next.
func (g *Gen) varReuseProgram(mode int, tail bool) *GProgram {
	asset := "USD"
	g.asset = asset
	g.smallBalances([]string{"a", "b"}, asset, 40)
	n := bi(int64(g.r.Intn(60)))
	if g.r.Chance(1, 6) {
		n = new(big.Int).Add(new(big.Int).Lsh(bi(1), 64), bi(int64(g.r.Intn(50))))
	}
	g.prog.Vars = append(g.prog.Vars, &GVarDecl{Type: "monetary", Name: "r"})
	g.rawVars["r"] = asset + " " + n.String()
	use := func() *GExpr { return &GExpr{Kind: XVar, S: "r"} }
	if mode == 3 {
		// the variable is the LEFT operand of a difference (or a sum) - as an overdraft limit, a cap or the
		// amount sent - and is used again afterwards: an operation must not write into its operands
		q := bi(int64(g.r.Intn(80)))
		g.prog.Vars = append(g.prog.Vars, &GVarDecl{Type: "monetary", Name: "q"})
		g.rawVars["q"] = asset + " " + q.String()
		op := g.r.Pick([]string{"-", "-", "+"})
		diff := func() *GExpr { return &GExpr{Kind: XInfix, Op: op, A: use(), B: &GExpr{Kind: XVar, S: "q"}} }
		if new(big.Int).Mod(q, bi(3)).Sign() == 0 {
			// one case in three: the two variables are NUMBERS, used as the amount of monetary literals
			// (`[USD $r - $q]`, then `[USD $r]`)
			for _, d := range g.prog.Vars {
				if d.Name == "r" || d.Name == "q" {
					d.Type = "number"
				}
			}
			g.rawVars["r"], g.rawVars["q"] = n.String(), q.String()
			num := func() *GExpr { return &GExpr{Kind: XVar, S: "r"} }
			use = func() *GExpr { return &GExpr{Kind: XMonetary, A: &GExpr{Kind: XAsset, S: asset}, B: num()} }
			diff = func() *GExpr {
				return &GExpr{Kind: XMonetary, A: &GExpr{Kind: XAsset, S: asset}, B: &GExpr{Kind: XInfix, Op: op, A: num(), B: &GExpr{Kind: XVar, S: "q"}}}
			}
		}
		n1, n2 := bi(int64(g.r.Intn(60))), bi(int64(g.r.Intn(60)))
		switch g.r.Intn(3) {
		case 0:
			g.prog.Stmts = append(g.prog.Stmts, &GStmt{Kind: StSend, Sent: &GSent{E: lit(asset, n1)}, Src: &GSource{Kind: SrcOverdraft, E: acct("b"), Bounded: diff()}, Dst: dstAcct("c")})
		case 1:
			g.prog.Stmts = append(g.prog.Stmts, &GStmt{Kind: StSend, Sent: &GSent{E: lit(asset, n1)}, Src: &GSource{Kind: SrcInorder, Subs: []*GSource{{Kind: SrcCapped, Cap: diff(), From: srcAcct("a")}, srcAcct("world")}}, Dst: dstAcct("c")})
		default:
			g.prog.Stmts = append(g.prog.Stmts, &GStmt{Kind: StCall, Call: &GFnCall{Name: "set_tx_meta", Args: []*GExpr{{Kind: XString, S: "d"}, diff()}}})
		}
		g.prog.Stmts = append(g.prog.Stmts, &GStmt{Kind: StSend, Sent: &GSent{E: lit(asset, n2)}, Src: &GSource{Kind: SrcOverdraft, E: acct("b"), Bounded: use()}, Dst: dstAcct("d")})
		if g.r.Chance(1, 2) {
			g.prog.Stmts = append(g.prog.Stmts, &GStmt{Kind: StSend, Sent: &GSent{E: use()}, Src: srcAcct("world"), Dst: dstAcct("e-x_1")})
		}
		g.prog.Stmts = append(g.prog.Stmts, &GStmt{Kind: StCall, Call: &GFnCall{Name: "set_tx_meta", Args: []*GExpr{{Kind: XString, S: "r"}, use()}}})
		return g.prog
	}
	switch mode % 3 {
	case 0: // two saves of the same variable, then the accounts are drawn
		g.prog.Stmts = append(g.prog.Stmts,
			&GStmt{Kind: StSave, Sent: &GSent{E: use()}, Acct: acct("a")},
			&GStmt{Kind: StSave, Sent: &GSent{E: use()}, Acct: acct("b")})
		if g.r.Chance(1, 2) {
			g.prog.Stmts = append(g.prog.Stmts, &GStmt{Kind: StSend, Sent: &GSent{E: lit(asset, bi(int64(g.r.Intn(20))))}, Src: srcAcct("world"), Dst: dstAcct("a")},
				&GStmt{Kind: StSave, Sent: &GSent{E: use()}, Acct: acct("a")})
		}
		sent := &GSent{E: lit(asset, bi(int64(g.r.Intn(50))))}
		if g.r.Chance(1, 3) {
			sent = &GSent{All: true, E: &GExpr{Kind: XAsset, S: asset}}
		}
		g.prog.Stmts = append(g.prog.Stmts, &GStmt{Kind: StSend, Sent: sent, Src: &GSource{Kind: SrcInorder, Subs: []*GSource{srcAcct("a"), srcAcct("b")}}, Dst: dstAcct("c")})
	case 1: // the same variable as the cap of two destination clauses
		total := bi(int64(g.r.Intn(150)))
		dst := &GDest{Kind: DstInorder, Clauses: []*GClause{
			{Cap: use(), To: &GKod{To: dstAcct("a")}},
			{Cap: use(), To: &GKod{To: dstAcct("b")}}},
			Remaining: &GKod{Kept: true}}
		if g.r.Chance(1, 2) {
			dst.Clauses = append(dst.Clauses, &GClause{Cap: use(), To: &GKod{To: dstAcct("c")}})
		}
		if g.r.Chance(1, 3) {
			dst.Remaining = &GKod{To: dstAcct("d")}
		}
		g.prog.Stmts = append(g.prog.Stmts, &GStmt{Kind: StSend, Sent: &GSent{E: lit(asset, total)}, Src: srcAcct("world"), Dst: dst})
	default: // sent twice, and as a cap in a source
		g.prog.Stmts = append(g.prog.Stmts,
			&GStmt{Kind: StSend, Sent: &GSent{E: use()}, Src: &GSource{Kind: SrcInorder, Subs: []*GSource{srcAcct("a"), srcAcct("world")}}, Dst: dstAcct("c")},
			&GStmt{Kind: StSend, Sent: &GSent{E: lit(asset, bi(int64(g.r.Intn(80))))}, Src: &GSource{Kind: SrcInorder, Subs: []*GSource{{Kind: SrcCapped, Cap: use(), From: srcAcct("b")}, srcAcct("world")}}, Dst: dstAcct("d")},
			&GStmt{Kind: StSend, Sent: &GSent{E: use()}, Src: srcAcct("world"), Dst: dstAcct("e-x_1")})
	}
	if tail && g.r.Chance(1, 2) {
		g.prog.Stmts = append(g.prog.Stmts, &GStmt{Kind: StCall, Call: &GFnCall{Name: "set_tx_meta", Args: []*GExpr{{Kind: XString, S: "r"}, use()}}})
	}
	return g.prog
}

// overdraftOrigin: the debt of an account is read through overdraft() / its balance through balance()
// (variable origins), then the same account - literal or through a variable - is used as a source.
// Reading a balance must not change it.
func (g *Gen) overdraftOriginProgram() *GProgram {
	asset := "USD"
	g.asset = asset
	g.flag = true
	g.smallBalances([]string{"b"}, asset, 30)
	debt := int64(1 + g.r.Intn(60))
	g.bal["a"] = map[string]*big.Int{asset: bi(-debt)}
	if g.r.Chance(1, 4) {
		g.bal["a"][asset] = bi(int64(g.r.Intn(20)))
	}
	fn := "overdraft"
	if g.r.Chance(1, 3) {
		fn = "balance"
		g.bal["a"][asset] = bi(int64(g.r.Intn(60) - 20)) // balance() of an overdrawn account is an error, with or without the flag
		g.flag = g.r.Chance(1, 2)
	}
	g.prog.Vars = append(g.prog.Vars, &GVarDecl{Type: "monetary", Name: "o",
		Origin: &GFnCall{Name: fn, Args: []*GExpr{acct("a"), {Kind: XAsset, S: asset}}}})
	addr := acct("a")
	if g.r.Chance(1, 3) {
		g.prog.Vars = append(g.prog.Vars, &GVarDecl{Type: "account", Name: "who"})
		g.rawVars["who"] = "a"
		addr = &GExpr{Kind: XVar, S: "who"}
	}
	var src *GSource
	switch g.r.Intn(3) {
	case 0:
		src = &GSource{Kind: SrcOverdraft, E: addr, Bounded: lit(asset, bi(int64(g.r.Intn(40))))}
	case 1:
		src = &GSource{Kind: SrcInorder, Subs: []*GSource{{Kind: SrcAccount, E: addr}, srcAcct("b")}}
	default:
		src = &GSource{Kind: SrcOverdraft, E: addr, Bounded: &GExpr{Kind: XVar, S: "o"}}
	}
	sent := &GSent{E: lit(asset, bi(int64(1+g.r.Intn(40))))}
	if g.r.Chance(1, 4) {
		sent = &GSent{All: true, E: &GExpr{Kind: XAsset, S: asset}}
	}
	g.prog.Stmts = append(g.prog.Stmts, &GStmt{Kind: StSend, Sent: sent, Src: src, Dst: dstAcct("c")})
	if g.r.Chance(1, 2) {
		g.prog.Stmts = append(g.prog.Stmts, &GStmt{Kind: StCall, Call: &GFnCall{Name: "set_tx_meta", Args: []*GExpr{{Kind: XString, S: "o"}, {Kind: XVar, S: "o"}}}})
	}
	return g.prog
}

// overdraftTwice: the same account is drawn with a bounded overdraft (bound > 0) more than once -
// in two statements, or twice in one source: the bound is granted once, not at every evaluation.
func (g *Gen) overdraftTwiceProgram() *GProgram {
	asset := "USD"
	g.asset = asset
	g.smallBalances([]string{"a", "b"}, asset, 12)
	if g.r.Chance(1, 3) {
		g.bal["a"][asset] = bi(0)
	}
	bound := func() *GExpr { return lit(asset, bi(int64(1+g.r.Intn(15)))) }
	od := func() *GSource { return &GSource{Kind: SrcOverdraft, E: acct("a"), Bounded: bound()} }
	amount := func() *GSent { return &GSent{E: lit(asset, bi(int64(g.r.Intn(25))))} }
	n := 2 + g.r.Intn(2)
	for i := 0; i < n; i++ {
		var src *GSource
		switch g.r.Intn(4) {
		case 0:
			src = od()
		case 1:
			src = &GSource{Kind: SrcInorder, Subs: []*GSource{od(), srcAcct("b"), od()}}
		case 2:
			src = &GSource{Kind: SrcInorder, Subs: []*GSource{srcAcct("a"), od()}}
		default:
			src = &GSource{Kind: SrcInorder, Subs: []*GSource{od(), srcAcct("world")}}
		}
		sent := amount()
		if g.r.Chance(1, 6) {
			sent = &GSent{All: true, E: &GExpr{Kind: XAsset, S: asset}}
			src = od()
		}
		g.prog.Stmts = append(g.prog.Stmts, &GStmt{Kind: StSend, Sent: sent, Src: src, Dst: dstAcct([]string{"c", "d"}[g.r.Intn(2)])})
	}
	return g.prog
}

// effectsCarry: one account, a first statement that changes its balance in an unusual way (money
// sent to @world, to itself, received, partly through an allotment), then a statement whose
// outcome depends on the exact balance left.
func (g *Gen) effectsCarryProgram() *GProgram {
	asset := "USD"
	g.asset = asset
	g.smallBalances([]string{"a", "b"}, asset, 40)
	if g.bal["a"][asset].Sign() <= 0 {
		g.bal["a"][asset] = bi(int64(5 + g.r.Intn(30)))
	}
	have := g.bal["a"][asset].Int64()
	k := int64(1 + g.r.Intn(int(have)))
	left := have
	var first *GStmt
	switch g.r.Intn(5) {
	case 0: // to @world
		first = &GStmt{Kind: StSend, Sent: &GSent{E: lit(asset, bi(k))}, Src: srcAcct("a"), Dst: dstAcct("world")}
		left = have - k
	case 1: // partly to @world through an allotment
		first = &GStmt{Kind: StSend, Sent: &GSent{E: lit(asset, bi(k))}, Src: srcAcct("a"),
			Dst: &GDest{Kind: DstAllot, Items: []*GDestItem{
				{Allot: &GAllot{Kind: AlRatio, E: g.ratio(bi(1), bi(10))}, To: &GKod{To: dstAcct("world")}},
				{Allot: &GAllot{Kind: AlRemaining}, To: &GKod{To: dstAcct("c")}}}}}
		left = have - k
	case 2: // to itself
		first = &GStmt{Kind: StSend, Sent: &GSent{E: lit(asset, bi(k))}, Src: srcAcct("a"), Dst: dstAcct("a")}
	case 3: // received from another account
		first = &GStmt{Kind: StSend, Sent: &GSent{E: lit(asset, bi(k))}, Src: srcAcct("world"), Dst: dstAcct("a")}
		left = have + k
	default: // ordered destination: a capped part to @world, the rest back to itself
		first = &GStmt{Kind: StSend, Sent: &GSent{E: lit(asset, bi(k))}, Src: srcAcct("a"),
			Dst: &GDest{Kind: DstInorder, Clauses: []*GClause{{Cap: lit(asset, bi(int64(g.r.Intn(int(k)+1)))), To: &GKod{To: dstAcct("world")}}},
				Remaining: &GKod{To: dstAcct("a")}}}
		left = -1 // depends on the cap: any amount around the balance
	}
	g.prog.Stmts = append(g.prog.Stmts, first)
	if left < 0 {
		left = have
	}
	m := left + int64(g.r.Intn(5)) - 2
	if m < 0 {
		m = 0
	}
	var src *GSource = srcAcct("a")
	switch g.r.Intn(3) {
	case 1:
		src = &GSource{Kind: SrcOverdraft, E: acct("a"), Bounded: lit(asset, bi(int64(g.r.Intn(4))))}
	case 2:
		src = &GSource{Kind: SrcInorder, Subs: []*GSource{srcAcct("a"), srcAcct("b")}}
	}
	sent := &GSent{E: lit(asset, bi(m))}
	if g.r.Chance(1, 4) {
		sent = &GSent{All: true, E: &GExpr{Kind: XAsset, S: asset}}
	}
	g.prog.Stmts = append(g.prog.Stmts, &GStmt{Kind: StSend, Sent: sent, Src: src, Dst: dstAcct("d")})
	return g.prog
}

// kitchenSink: a valid script with a variable of every type in every syntactic position a variable
// can take (sent values incl. send-all, sources, caps, overdraft limits, allotment portions in
// sources and destinations, kept clauses, save, calls, both operands of an infix, origins). Run by
// the analysis properties as a fixed corpus entry: hover, definition and "used" bookkeeping must
// work for each of these positions.
const kitchenSink = `vars {
  asset $ast
  account $acc
  monetary $mon
  number $num
  portion $por
  string $str
  monetary $bal = balance($acc, $ast)
  account $m = meta($acc, $str)
}
send [$ast *] (
  source = { $acc max $mon from $acc allowing overdraft up to $mon }
  destination = { max $mon to $acc remaining kept }
)
send $mon + [$ast $num] (
  source = { $por from $acc remaining from { $acc @b allowing unbounded overdraft } }
  destination = { $por to $acc remaining to { max [$ast $num] kept remaining to $m } }
)
save $mon from $acc
save [$ast *] from $m
set_account_meta($acc, $str, $num - $num)
set_tx_meta($str, $bal)
`

// repeatDest: the same destination account (or `kept`) in two non-adjacent clauses of an ordered or
// allotted destination, fed by at least two sources: each clause is its own entry of the
// distribution list, paired with the sources in order.
func (g *Gen) repeatDestProgram() *GProgram {
	asset := "USD"
	g.asset = asset
	names := []string{"a", "b", "c"}[:2+g.r.Intn(2)]
	sum := g.smallBalances(names, asset, 15)
	src := &GSource{Kind: SrcInorder}
	for _, a := range names {
		src.Subs = append(src.Subs, srcAcct(a))
	}
	if g.r.Chance(1, 3) {
		src.Subs = append(src.Subs, srcAcct("world"))
	}
	n := new(big.Int).Set(sum)
	if sum.Sign() > 0 && g.r.Chance(1, 3) {
		n = g.r.BigBelow(new(big.Int).Add(sum, bi(1)))
	}
	x := &GKod{To: dstAcct("x")}
	if g.r.Chance(1, 4) {
		x = &GKod{Kept: true}
	}
	if g.r.Chance(1, 5) {
		// the same account through a variable and literally
		g.prog.Vars = append(g.prog.Vars, &GVarDecl{Type: "account", Name: "dx"})
		g.rawVars["dx"] = "x"
		x = &GKod{To: &GDest{Kind: DstAccount, E: &GExpr{Kind: XVar, S: "dx"}}}
	}
	again := func() *GKod {
		if x.Kept {
			return &GKod{Kept: true}
		}
		return &GKod{To: dstAcct("x")}
	}
	var dst *GDest
	if g.r.Chance(2, 3) {
		dst = &GDest{Kind: DstInorder, Clauses: []*GClause{
			{Cap: lit(asset, bi(int64(g.r.Intn(8)))), To: x},
			{Cap: lit(asset, bi(int64(g.r.Intn(8)))), To: &GKod{To: dstAcct("y")}},
			{Cap: lit(asset, bi(int64(g.r.Intn(8)))), To: again()}},
			Remaining: &GKod{To: dstAcct("z")}}
		if g.r.Chance(1, 3) {
			dst.Remaining = again()
		}
	} else {
		dst = &GDest{Kind: DstAllot, Items: []*GDestItem{
			{Allot: &GAllot{Kind: AlRatio, E: g.ratio(bi(1), bi(4))}, To: x},
			{Allot: &GAllot{Kind: AlRatio, E: g.ratio(bi(1), bi(2))}, To: &GKod{To: dstAcct("y")}},
			{Allot: &GAllot{Kind: AlRemaining}, To: again()}}}
	}
	g.prog.Stmts = append(g.prog.Stmts, &GStmt{Kind: StSend, Sent: &GSent{E: lit(asset, n)}, Src: src, Dst: dst})
	return g.prog
}

// capVarReuse: ONE monetary variable is the cap of several `max $cap from ...` sources - in the
// branches of an allotment (each branch asks the cap for its own part), in an ordered list, and in a
// later statement. A cap that was larger than what one place needed must still be whole in the next.
func (g *Gen) capVarReuseProgram(single bool) *GProgram {
	asset := "USD"
	g.asset = asset
	g.smallBalances([]string{"a", "b", "c"}, asset, 60)
	n := int64(4 + g.r.Intn(60))
	capv := bi(int64(g.r.Intn(int(n) + 10)))
	g.prog.Vars = append(g.prog.Vars, &GVarDecl{Type: "monetary", Name: "cap"})
	g.rawVars["cap"] = asset + " " + capv.String()
	use := func() *GExpr { return &GExpr{Kind: XVar, S: "cap"} }
	capped := func(a string) *GSource {
		from := srcAcct(a)
		if g.r.Chance(1, 4) {
			from = &GSource{Kind: SrcInorder, Subs: []*GSource{srcAcct(a), srcAcct("world")}}
		}
		return &GSource{Kind: SrcCapped, Cap: use(), From: from}
	}
	var src *GSource
	if g.r.Chance(2, 3) {
		saved := g.cfg.BadAllot
		g.cfg.BadAllot = 0
		k := 2 + g.r.Intn(2)
		src = &GSource{Kind: SrcAllot}
		names := []string{"a", "b", "c"}
		for i, al := range g.allots(k) {
			src.Items = append(src.Items, &GSrcItem{Allot: al, From: capped(names[i%3])})
		}
		g.cfg.BadAllot = saved
	} else {
		src = &GSource{Kind: SrcInorder, Subs: []*GSource{capped("a"), capped("b")}}
		if g.r.Chance(1, 2) {
			src.Subs = append(src.Subs, srcAcct("world"))
		}
	}
	dst := dstAcct("d")
	if !single && g.r.Chance(1, 2) {
		// an earlier statement that needs less than the cap
		g.prog.Stmts = append(g.prog.Stmts, &GStmt{Kind: StSend, Sent: &GSent{E: lit(asset, bi(int64(g.r.Intn(int(n)/2+1))))},
			Src: &GSource{Kind: SrcInorder, Subs: []*GSource{capped("c"), srcAcct("world")}}, Dst: dstAcct("e")})
	}
	g.prog.Stmts = append(g.prog.Stmts, &GStmt{Kind: StSend, Sent: &GSent{E: lit(asset, bi(n))}, Src: src, Dst: dst})
	if !single && g.r.Chance(1, 2) {
		g.prog.Stmts = append(g.prog.Stmts, &GStmt{Kind: StSend, Sent: &GSent{E: use()}, Src: srcAcct("world"), Dst: dstAcct("f")})
	}
	return g.prog
}

// originOtherAsset: a variable origin reads ONE asset of an account (balance / overdraft), then a
// send draws ANOTHER asset from the same account: what is known about one asset of an account says
// nothing about its other assets.
func (g *Gen) originOtherAssetProgram(single bool) *GProgram {
	x, y := "USD", "EUR"
	if g.r.Chance(1, 2) {
		x, y = y, x
	}
	g.asset = y
	g.bal["a"] = map[string]*big.Int{x: bi(int64(g.r.Intn(30))), y: bi(int64(5 + g.r.Intn(40)))}
	g.bal["b"] = map[string]*big.Int{x: bi(int64(g.r.Intn(10))), y: bi(int64(g.r.Intn(40)))}
	if g.r.Chance(1, 4) {
		delete(g.bal["a"], x)
	}
	debt := !single && g.r.Chance(1, 3)
	if debt {
		// the account already owes some of the OTHER asset: a bounded overdraft starts from that debt
		g.bal["a"][y] = bi(-int64(5 + g.r.Intn(40)))
	}
	fn := "balance"
	if g.r.Chance(1, 4) {
		fn = "overdraft"
		g.flag = true
	}
	g.prog.Vars = append(g.prog.Vars, &GVarDecl{Type: "monetary", Name: "seen",
		Origin: &GFnCall{Name: fn, Args: []*GExpr{acct("a"), {Kind: XAsset, S: x}}}})
	var src *GSource
	switch g.r.Intn(3) {
	case 0:
		src = srcAcct("a")
	case 1:
		src = &GSource{Kind: SrcInorder, Subs: []*GSource{srcAcct("a"), srcAcct("b")}}
	default:
		src = &GSource{Kind: SrcInorder, Subs: []*GSource{srcAcct("b"), srcAcct("a")}}
	}
	sent := &GSent{E: lit(y, bi(int64(1+g.r.Intn(40))))}
	if g.r.Chance(1, 3) {
		sent = &GSent{All: true, E: &GExpr{Kind: XAsset, S: y}}
	}
	if debt {
		src = &GSource{Kind: SrcOverdraft, E: acct("a"), Bounded: lit(y, bi(int64(10+g.r.Intn(40))))}
	}
	// the asset already read is needed again by the statements (a save, or a send of its own), so
	// that one request names a known and an unknown asset of the same account
	if g.r.Chance(3, 4) {
		g.prog.Stmts = append(g.prog.Stmts, &GStmt{Kind: StSave, Sent: &GSent{E: lit(x, bi(int64(g.r.Intn(8))))}, Acct: acct("a")})
	}
	if !single && g.r.Chance(1, 2) {
		g.prog.Stmts = append(g.prog.Stmts, &GStmt{Kind: StSend, Sent: &GSent{E: lit(x, bi(int64(g.r.Intn(12))))}, Src: &GSource{Kind: SrcInorder, Subs: []*GSource{srcAcct("a"), srcAcct("world")}}, Dst: dstAcct("d")})
	}
	g.prog.Stmts = append(g.prog.Stmts, &GStmt{Kind: StSend, Sent: sent, Src: src, Dst: dstAcct("c")})
	if !single {
		g.prog.Stmts = append(g.prog.Stmts, &GStmt{Kind: StCall, Call: &GFnCall{Name: "set_tx_meta", Args: []*GExpr{{Kind: XString, S: "seen"}, {Kind: XVar, S: "seen"}}}})
	}
	return g.prog
}

// nestedKept: an ordered destination ending in `remaining kept` (or keeping a capped amount) NESTED
// inside a clause of an outer ordered destination or inside a share of an allotment, with other
// destinations after it: what the inner block keeps is withheld from the sources next in line at
// that point, and the destinations that follow are served by the sources after those.
func (g *Gen) nestedKeptProgram() *GProgram {
	asset := "USD"
	g.asset = asset
	k := 2 + g.r.Intn(3)
	names := []string{"a", "b", "c", "d"}[:k]
	sum := g.smallBalances(names, asset, 10)
	src := &GSource{Kind: SrcInorder}
	for _, a := range names {
		src.Subs = append(src.Subs, srcAcct(a))
	}
	if g.r.Chance(1, 4) {
		src.Subs = append(src.Subs, srcAcct("world"))
	}
	n := new(big.Int).Set(sum)
	if sum.Sign() > 0 && g.r.Chance(1, 3) {
		n = g.r.BigBelow(new(big.Int).Add(sum, bi(1)))
	}
	small := func() *GExpr { return lit(asset, bi(int64(g.r.Intn(7)))) }
	inner := &GDest{Kind: DstInorder, Remaining: &GKod{Kept: true}}
	for i, m := 0, 1+g.r.Intn(2); i < m; i++ {
		to := &GKod{To: dstAcct([]string{"x", "y"}[g.r.Intn(2)])}
		if g.r.Chance(1, 4) {
			to = &GKod{Kept: true}
		}
		inner.Clauses = append(inner.Clauses, &GClause{Cap: small(), To: to})
	}
	if g.r.Chance(1, 5) {
		inner.Remaining = &GKod{To: dstAcct("w")}
	}
	var dst *GDest
	if g.r.Chance(2, 3) {
		dst = &GDest{Kind: DstInorder, Remaining: &GKod{To: dstAcct("z")}}
		if g.r.Chance(1, 3) {
			dst.Clauses = append(dst.Clauses, &GClause{Cap: small(), To: &GKod{To: dstAcct("v")}})
		}
		dst.Clauses = append(dst.Clauses, &GClause{Cap: lit(asset, bi(int64(1+g.r.Intn(9)))), To: &GKod{To: inner}})
		if g.r.Chance(1, 2) {
			dst.Clauses = append(dst.Clauses, &GClause{Cap: small(), To: &GKod{To: dstAcct("y")}})
		}
	} else {
		saved := g.cfg.BadAllot
		g.cfg.BadAllot = 0
		als := g.allots(2 + g.r.Intn(2))
		g.cfg.BadAllot = saved
		dst = &GDest{Kind: DstAllot}
		at := g.r.Intn(len(als) - 1) // never the last share: something must follow the inner block
		for i, al := range als {
			to := &GKod{To: dstAcct([]string{"z", "y", "v"}[i%3])}
			if i == at {
				to = &GKod{To: inner}
			}
			dst.Items = append(dst.Items, &GDestItem{Allot: al, To: to})
		}
	}
	g.prog.Stmts = append(g.prog.Stmts, &GStmt{Kind: StSend, Sent: &GSent{E: lit(asset, n)}, Src: src, Dst: dst})
	return g.prog
}

// metaReadThenWrite: a key of an account is READ through a meta() origin, then written twice - a new
// value, then the value it had in the store again (as a literal, or through the variable that read
// it): the last write wins, whatever was read before.
func (g *Gen) metaReadThenWriteProgram() *GProgram {
	g.asset = "USD"
	acc := g.r.Pick([]string{"a", "b"})
	key := g.r.Pick([]string{"k", "key"})
	typ, initial, other := "string", "first", "second"
	mk := func(v string) *GExpr { return &GExpr{Kind: XString, S: v} }
	if g.r.Chance(1, 3) {
		typ, initial, other = "number", "7", "8"
		mk = func(v string) *GExpr { n, _ := new(big.Int).SetString(v, 10); return &GExpr{Kind: XNumber, N: n} }
	}
	if g.meta[acc] == nil {
		g.meta[acc] = map[string]string{}
	}
	g.meta[acc][key] = initial
	g.prog.Vars = append(g.prog.Vars, &GVarDecl{Type: typ, Name: "seen", Origin: &GFnCall{Name: "meta", Args: []*GExpr{acct(acc), {Kind: XString, S: key}}}})
	set := func(v *GExpr) {
		g.prog.Stmts = append(g.prog.Stmts, &GStmt{Kind: StCall, Call: &GFnCall{Name: "set_account_meta", Args: []*GExpr{acct(acc), {Kind: XString, S: key}, v}}})
	}
	if g.r.Chance(1, 4) {
		set(mk(initial)) // written back unchanged first
	}
	set(mk(other))
	if g.r.Chance(1, 3) {
		set(&GExpr{Kind: XString, S: "third"})
	}
	if g.r.Chance(1, 2) {
		set(&GExpr{Kind: XVar, S: "seen"})
	} else {
		set(mk(initial))
	}
	if g.r.Chance(1, 3) {
		g.prog.Stmts = append(g.prog.Stmts, &GStmt{Kind: StCall, Call: &GFnCall{Name: "set_tx_meta", Args: []*GExpr{{Kind: XString, S: "seen"}, {Kind: XVar, S: "seen"}}}})
	}
	return g.prog
}

// zeroShare: an allotment (source or destination side) with a share of zero - 0%, 0/n - among the
// FIRST clauses and an amount that leaves units over: the leftover units go to the earliest clauses
// whatever their portion, so the zero share receives / pays a unit and its account matters.
func (g *Gen) zeroShareProgram() *GProgram {
	asset := "USD"
	g.asset = asset
	g.smallBalances([]string{"a", "b", "c"}, asset, 40)
	for _, a := range []string{"a", "b", "c"} {
		if g.bal[a][asset].Sign() <= 0 {
			g.bal[a][asset] = bi(int64(1 + g.r.Intn(20)))
		}
	}
	den := int64(3 + g.r.Intn(5))
	p1 := int64(1 + g.r.Intn(int(den)-1))
	zero := g.ratio(bi(0), bi(den))
	if g.r.Chance(1, 2) {
		zero = &GExpr{Kind: XRatio, Text: "0%", Num: bi(0), Den: bi(1)}
	}
	als := []*GAllot{{Kind: AlRatio, E: zero}, {Kind: AlRatio, E: g.ratio(bi(p1), bi(den))}, {Kind: AlRatio, E: g.ratio(bi(den-p1), bi(den))}}
	if g.r.Chance(1, 3) {
		als[2] = &GAllot{Kind: AlRemaining}
	}
	if g.r.Chance(1, 4) {
		als[0], als[1] = als[1], als[0]
	}
	n := bi(int64(1 + g.r.Intn(30)))
	st := &GStmt{Kind: StSend, Sent: &GSent{E: lit(asset, n)}}
	names := []string{"a", "b", "c"}
	if g.r.Chance(2, 3) {
		src := &GSource{Kind: SrcAllot}
		for i, al := range als {
			src.Items = append(src.Items, &GSrcItem{Allot: al, From: srcAcct(names[i])})
		}
		st.Src, st.Dst = src, dstAcct("d")
	} else {
		dst := &GDest{Kind: DstAllot}
		for i, al := range als {
			dst.Items = append(dst.Items, &GDestItem{Allot: al, To: &GKod{To: dstAcct(names[i])}})
		}
		st.Src, st.Dst = srcAcct("world"), dst
	}
	g.prog.Stmts = append(g.prog.Stmts, st)
	if g.r.Chance(1, 2) {
		g.prog.Stmts = append(g.prog.Stmts, &GStmt{Kind: StSend, Sent: &GSent{E: lit(asset, bi(int64(g.r.Intn(10))))}, Src: srcAcct("a"), Dst: dstAcct("e")})
	}
	return g.prog
}

// saveAllDebt: an account in debt is "emptied" by `save [A *]` (a negative balance is not raised by a
// save), then receives funds and is drawn: what it can give depends on the debt it still has.
func (g *Gen) saveAllDebtProgram() *GProgram {
	asset := "USD"
	g.asset = asset
	debt := int64(1 + g.r.Intn(40))
	g.bal["a"] = map[string]*big.Int{asset: bi(-debt)}
	g.bal["b"] = map[string]*big.Int{asset: bi(int64(g.r.Intn(30)))}
	if g.r.Chance(1, 4) {
		g.bal["a"][asset] = bi(int64(g.r.Intn(20))) // a control: nothing owed
	}
	g.prog.Stmts = append(g.prog.Stmts, &GStmt{Kind: StSave, Sent: &GSent{All: true, E: &GExpr{Kind: XAsset, S: asset}}, Acct: acct("a")})
	credit := int64(g.r.Intn(60))
	if g.r.Chance(3, 4) {
		g.prog.Stmts = append(g.prog.Stmts, &GStmt{Kind: StSend, Sent: &GSent{E: lit(asset, bi(credit))}, Src: srcAcct("world"), Dst: dstAcct("a")})
	}
	n := bi(int64(1 + g.r.Intn(40)))
	var src *GSource
	switch g.r.Intn(3) {
	case 0:
		src = srcAcct("a")
	case 1:
		src = &GSource{Kind: SrcInorder, Subs: []*GSource{srcAcct("a"), srcAcct("b")}}
	default:
		src = &GSource{Kind: SrcOverdraft, E: acct("a"), Bounded: lit(asset, bi(int64(g.r.Intn(50))))}
	}
	sent := &GSent{E: lit(asset, n)}
	if g.r.Chance(1, 4) {
		sent = &GSent{All: true, E: &GExpr{Kind: XAsset, S: asset}}
	}
	g.prog.Stmts = append(g.prog.Stmts, &GStmt{Kind: StSend, Sent: sent, Src: src, Dst: dstAcct("c")})
	return g.prog
}

// remainingFirst: a SOURCE allotment whose `remaining` share is written first or in the middle (the
// checker objects, the interpreter runs it): the draw list follows the order in which the clauses are
// written, which shows in who pays whom as soon as there are several destinations or a kept amount.
func (g *Gen) remainingFirstProgram() *GProgram {
	asset := "USD"
	g.asset = asset
	g.smallBalances([]string{"a", "b", "c"}, asset, 30)
	for _, a := range []string{"a", "b", "c"} {
		g.bal[a][asset] = new(big.Int).Add(g.bal[a][asset], bi(40))
	}
	den := int64(3 + g.r.Intn(6))
	p1 := int64(1 + g.r.Intn(int(den)-2))
	als := []*GAllot{{Kind: AlRemaining}, {Kind: AlRatio, E: g.ratio(bi(p1), bi(den))}}
	names := []string{"a", "b", "c"}
	if g.r.Chance(1, 2) {
		p2 := int64(1 + g.r.Intn(int(den-p1)-0))
		if p1+p2 < den {
			als = []*GAllot{{Kind: AlRatio, E: g.ratio(bi(p1), bi(den))}, {Kind: AlRemaining}, {Kind: AlRatio, E: g.ratio(bi(p2), bi(den))}}
		}
	}
	n := int64(5 + g.r.Intn(40))
	if g.r.Chance(1, 3) {
		// the mirror image: several plain sources, a DESTINATION allotment whose `remaining kept` share is
		// written first or in the middle - what is kept is withheld from the sources next in line there
		dal := []*GDestItem{{Allot: &GAllot{Kind: AlRemaining}, To: &GKod{Kept: true}},
			{Allot: &GAllot{Kind: AlRatio, E: g.ratio(bi(p1), bi(den))}, To: &GKod{To: dstAcct("x")}}}
		if g.r.Chance(1, 2) && p1+1 < den {
			dal = append([]*GDestItem{{Allot: &GAllot{Kind: AlRatio, E: g.ratio(bi(1), bi(den))}, To: &GKod{To: dstAcct("y")}}}, dal...)
		}
		g.prog.Stmts = append(g.prog.Stmts, &GStmt{Kind: StSend, Sent: &GSent{E: lit(asset, bi(n))},
			Src: &GSource{Kind: SrcInorder, Subs: []*GSource{srcAcct("a"), srcAcct("b"), srcAcct("c")}}, Dst: &GDest{Kind: DstAllot, Items: dal}})
		return g.prog
	}
	src := &GSource{Kind: SrcAllot}
	for i, al := range als {
		src.Items = append(src.Items, &GSrcItem{Allot: al, From: srcAcct(names[i%3])})
	}
	var dst *GDest
	switch g.r.Intn(3) {
	case 0:
		dst = &GDest{Kind: DstInorder, Clauses: []*GClause{{Cap: lit(asset, bi(int64(1+g.r.Intn(int(n))))), To: &GKod{To: dstAcct("x")}}}, Remaining: &GKod{To: dstAcct("y")}}
	case 1:
		dst = &GDest{Kind: DstInorder, Clauses: []*GClause{{Cap: lit(asset, bi(int64(1+g.r.Intn(int(n))))), To: &GKod{Kept: true}}}, Remaining: &GKod{To: dstAcct("y")}}
	default:
		dst = &GDest{Kind: DstAllot, Items: []*GDestItem{{Allot: &GAllot{Kind: AlRatio, E: g.ratio(bi(1), bi(2))}, To: &GKod{To: dstAcct("x")}}, {Allot: &GAllot{Kind: AlRemaining}, To: &GKod{To: dstAcct("y")}}}}
	}
	g.prog.Stmts = append(g.prog.Stmts, &GStmt{Kind: StSend, Sent: &GSent{E: lit(asset, bi(n))}, Src: src, Dst: dst})
	return g.prog
}

// mismatchSum: a sum or difference of two monetaries of DIFFERENT assets, one of them possibly zero,
// as the amount of a send, a cap or a metadata value: a mismatch whatever the amounts - nothing may be
// posted in either asset.
func (g *Gen) mismatchSumProgram() *GProgram {
	a1, a2 := "USD/2", "EUR/2"
	if g.r.Chance(1, 2) {
		a1, a2 = "USD", "COIN/2"
	}
	g.asset = a1
	g.smallBalances([]string{"a", "b"}, a1, 40)
	zero := func(p, q int) *big.Int {
		if g.r.Chance(p, q) {
			return bi(0)
		}
		return bi(int64(1 + g.r.Intn(40)))
	}
	g.prog.Vars = append(g.prog.Vars, &GVarDecl{Type: "monetary", Name: "base"}, &GVarDecl{Type: "monetary", Name: "bonus"})
	g.rawVars["base"] = a1 + " " + zero(2, 3).String()
	g.rawVars["bonus"] = a2 + " " + zero(1, 4).String()
	var l, r *GExpr
	switch g.r.Intn(3) {
	case 0:
		l, r = lit(a1, zero(2, 3)), &GExpr{Kind: XVar, S: "bonus"}
	case 1:
		l, r = &GExpr{Kind: XVar, S: "base"}, &GExpr{Kind: XVar, S: "bonus"}
	default:
		l, r = lit(a1, zero(2, 3)), lit(a2, zero(1, 4))
	}
	if g.r.Chance(1, 4) {
		l, r = r, l
	}
	sum := &GExpr{Kind: XInfix, Op: g.r.Pick([]string{"+", "+", "-"}), A: l, B: r}
	switch g.r.Intn(4) {
	case 0, 1:
		g.prog.Stmts = append(g.prog.Stmts, &GStmt{Kind: StSend, Sent: &GSent{E: sum}, Src: srcAcct(g.r.Pick([]string{"world", "a"})), Dst: dstAcct("c")})
	case 2:
		g.prog.Stmts = append(g.prog.Stmts, &GStmt{Kind: StSend, Sent: &GSent{E: lit(a1, bi(int64(g.r.Intn(30))))},
			Src: &GSource{Kind: SrcInorder, Subs: []*GSource{{Kind: SrcCapped, Cap: sum, From: srcAcct("a")}, srcAcct("world")}}, Dst: dstAcct("c")})
	default:
		g.prog.Stmts = append(g.prog.Stmts, &GStmt{Kind: StSend, Sent: &GSent{E: lit(a1, bi(5))}, Src: srcAcct("world"), Dst: dstAcct("c")},
			&GStmt{Kind: StCall, Call: &GFnCall{Name: "set_tx_meta", Args: []*GExpr{{Kind: XString, S: "sum"}, sum}}})
	}
	return g.prog
}

// cappedWorldThen: `max N from @world` (or a bounded / capped unbounded overdraft) FOLLOWED by ordinary
// sources in one in-order list: the capped part gives at most N, the accounts after it give the rest, so
// their balances matter (and must have been requested).
func (g *Gen) cappedWorldThenProgram() *GProgram {
	asset := "USD"
	g.asset = asset
	g.smallBalances([]string{"a", "b"}, asset, 50)
	capn := int64(g.r.Intn(30))
	var first *GSource
	switch g.r.Intn(3) {
	case 0:
		first = &GSource{Kind: SrcCapped, Cap: lit(asset, bi(capn)), From: srcAcct("world")}
	case 1:
		first = &GSource{Kind: SrcCapped, Cap: lit(asset, bi(capn)), From: &GSource{Kind: SrcOverdraft, E: acct("c")}}
	default:
		first = &GSource{Kind: SrcCapped, Cap: lit(asset, bi(capn)), From: &GSource{Kind: SrcInorder, Subs: []*GSource{srcAcct("world")}}}
	}
	subs := []*GSource{first, srcAcct("a")}
	if g.r.Chance(1, 2) {
		subs = append(subs, srcAcct("b"))
	}
	if g.r.Chance(1, 4) {
		subs = append([]*GSource{srcAcct("b")}, subs[:2]...)
	}
	sent := &GSent{E: lit(asset, bi(int64(1+g.r.Intn(70))))}
	if g.r.Chance(1, 4) {
		sent = &GSent{All: true, E: &GExpr{Kind: XAsset, S: asset}}
	}
	g.prog.Stmts = append(g.prog.Stmts, &GStmt{Kind: StSend, Sent: sent, Src: &GSource{Kind: SrcInorder, Subs: subs}, Dst: dstAcct("d")})
	return g.prog
}

// wordMultiple: balances, caps and kept amounts that are exact multiples of 2^64 (through variables:
// literals must fit in an int): an amount whose low 64 bits are zero is not zero.
func (g *Gen) wordMultipleProgram() *GProgram {
	asset := "COIN"
	g.asset = asset
	w := pow2(64)
	k := func() *big.Int { return new(big.Int).Mul(w, bi(int64(1+g.r.Intn(2)))) }
	g.bal["a"] = map[string]*big.Int{asset: k()}
	g.bal["b"] = map[string]*big.Int{asset: bi(int64(g.r.Intn(9)))}
	g.bal["c"] = map[string]*big.Int{asset: k()}
	g.prog.Vars = append(g.prog.Vars, &GVarDecl{Type: "monetary", Name: "w"}, &GVarDecl{Type: "monetary", Name: "n"})
	g.rawVars["w"] = asset + " " + k().String()
	total := new(big.Int).Add(new(big.Int).Add(g.bal["a"][asset], g.bal["b"][asset]), g.bal["c"][asset])
	if g.r.Chance(1, 2) {
		total = new(big.Int).Add(g.bal["a"][asset], g.bal["b"][asset])
	}
	g.rawVars["n"] = asset + " " + total.String()
	src := &GSource{Kind: SrcInorder, Subs: []*GSource{srcAcct("a"), srcAcct("b"), srcAcct("c")}}
	var dst *GDest
	switch g.r.Intn(3) {
	case 0:
		dst = &GDest{Kind: DstInorder, Clauses: []*GClause{{Cap: &GExpr{Kind: XVar, S: "w"}, To: &GKod{To: dstAcct("x")}}}, Remaining: &GKod{To: dstAcct("y")}}
	case 1:
		dst = &GDest{Kind: DstInorder, Clauses: []*GClause{{Cap: &GExpr{Kind: XVar, S: "w"}, To: &GKod{Kept: true}}}, Remaining: &GKod{To: dstAcct("y")}}
	default:
		dst = &GDest{Kind: DstAllot, Items: []*GDestItem{{Allot: &GAllot{Kind: AlRatio, E: g.ratio(bi(1), bi(2))}, To: &GKod{To: dstAcct("x")}}, {Allot: &GAllot{Kind: AlRemaining}, To: &GKod{To: dstAcct("y")}}}}
	}
	sent := &GSent{E: &GExpr{Kind: XVar, S: "n"}}
	if g.r.Chance(1, 4) {
		sent = &GSent{All: true, E: &GExpr{Kind: XAsset, S: asset}}
	}
	g.prog.Stmts = append(g.prog.Stmts, &GStmt{Kind: StSend, Sent: sent, Src: src, Dst: dst})
	return g.prog
}

// worldLookalike: accounts whose names merely resemble `world` (another case, a sub-account, a longer
// word) used as plain or bounded-overdraft sources with little or nothing on them: they are ordinary
// accounts and give what they hold.
func (g *Gen) worldLookalikeProgram() *GProgram {
	asset := "USD"
	g.asset = asset
	name := g.r.Pick([]string{"World", "WORLD", "wOrld", "world:fees", "worldwide", "users:world", "world-1", "world_"})
	g.bal[name] = map[string]*big.Int{asset: bi(int64(g.r.Intn(15)))}
	g.smallBalances([]string{"b"}, asset, 20)
	n := bi(int64(1 + g.r.Intn(40)))
	var first *GSource = srcAcct(name)
	if g.r.Chance(1, 3) {
		first = &GSource{Kind: SrcOverdraft, E: acct(name), Bounded: lit(asset, bi(int64(g.r.Intn(10))))}
	}
	if g.r.Chance(1, 4) {
		g.prog.Vars = append(g.prog.Vars, &GVarDecl{Type: "account", Name: "w"})
		g.rawVars["w"] = name
		first = &GSource{Kind: SrcAccount, E: &GExpr{Kind: XVar, S: "w"}}
	}
	src := first
	if g.r.Chance(1, 2) {
		src = &GSource{Kind: SrcInorder, Subs: []*GSource{first, srcAcct("b")}}
	}
	sent := &GSent{E: lit(asset, n)}
	if g.r.Chance(1, 4) {
		sent = &GSent{All: true, E: &GExpr{Kind: XAsset, S: asset}}
	}
	g.prog.Stmts = append(g.prog.Stmts, &GStmt{Kind: StSend, Sent: sent, Src: src, Dst: dstAcct("c")})
	if g.r.Chance(1, 3) {
		g.prog.Stmts = append(g.prog.Stmts, &GStmt{Kind: StSend, Sent: &GSent{E: lit(asset, bi(int64(1+g.r.Intn(10))))}, Src: srcAcct(name), Dst: dstAcct("d")})
	}
	return g.prog
}

// edgeLiteral: an amount written as a number literal at the very end of the int range or one past it.
// One past it is a parse error on this tree (finding F-D10); if it is ever accepted it must mean what
// is written, not the nearest value that fits.
func (g *Gen) edgeLiteralProgram() *GProgram {
	asset := "USD"
	g.asset = asset
	n := new(big.Int).Set([]*big.Int{pow2(63), new(big.Int).Add(pow2(63), bi(int64(g.r.Intn(100)))), new(big.Int).Sub(pow2(63), bi(1)),
		new(big.Int).Sub(pow2(63), bi(2)), new(big.Int).Mul(pow2(63), bi(9))}[g.r.Intn(5)])
	src := srcAcct("world")
	if g.r.Chance(1, 3) {
		g.bal["a"] = map[string]*big.Int{asset: new(big.Int).Add(n, bi(int64(g.r.Intn(3)-1)))}
		src = srcAcct("a")
	}
	amount := &GExpr{Kind: XMonetary, A: &GExpr{Kind: XAsset, S: asset}, B: &GExpr{Kind: XNumber, N: n}}
	switch g.r.Intn(3) {
	case 0:
		g.prog.Stmts = append(g.prog.Stmts, &GStmt{Kind: StSend, Sent: &GSent{E: amount}, Src: src, Dst: dstAcct("c")})
	case 1:
		g.prog.Stmts = append(g.prog.Stmts, &GStmt{Kind: StSend, Sent: &GSent{E: amount}, Src: src,
			Dst: &GDest{Kind: DstInorder, Clauses: []*GClause{{Cap: lit(asset, bi(int64(g.r.Intn(50)))), To: &GKod{To: dstAcct("x")}}}, Remaining: &GKod{To: dstAcct("y")}}})
	default:
		g.prog.Vars = append(g.prog.Vars, &GVarDecl{Type: "monetary", Name: "big"})
		g.rawVars["big"] = asset + " " + new(big.Int).Mul(n, bi(2)).String()
		g.prog.Stmts = append(g.prog.Stmts, &GStmt{Kind: StSend, Sent: &GSent{E: &GExpr{Kind: XVar, S: "big"}}, Src: srcAcct("world"),
			Dst: &GDest{Kind: DstInorder, Clauses: []*GClause{{Cap: amount, To: &GKod{To: dstAcct("x")}}}, Remaining: &GKod{To: dstAcct("y")}}})
	}
	return g.prog
}

// metaCapRewrite: a cap (or an amount) comes from a meta() origin, and the script itself rewrites that
// very metadata key: the value read is the store's, whatever the script writes, in this run and in
// the next one against the same store.
func (g *Gen) metaCapRewriteProgram() *GProgram {
	asset := "USD"
	g.asset = asset
	g.smallBalances([]string{"a", "b"}, asset, 40)
	capv := int64(5 + g.r.Intn(40))
	if g.meta["a"] == nil {
		g.meta["a"] = map[string]string{}
	}
	g.meta["a"]["limit"] = fmt.Sprintf("%s %d", asset, capv)
	g.prog.Vars = append(g.prog.Vars, &GVarDecl{Type: "monetary", Name: "cap", Origin: &GFnCall{Name: "meta", Args: []*GExpr{acct("a"), {Kind: XString, S: "limit"}}}})
	rewrite := &GStmt{Kind: StCall, Call: &GFnCall{Name: "set_account_meta", Args: []*GExpr{acct("a"), {Kind: XString, S: "limit"}, lit(asset, bi(int64(g.r.Intn(5))))}}}
	n := bi(int64(10 + g.r.Intn(80)))
	send := &GStmt{Kind: StSend, Sent: &GSent{E: lit(asset, n)}, Src: srcAcct("world"),
		Dst: &GDest{Kind: DstInorder, Clauses: []*GClause{{Cap: &GExpr{Kind: XVar, S: "cap"}, To: &GKod{To: dstAcct("x")}}}, Remaining: &GKod{To: dstAcct("y")}}}
	if g.r.Chance(1, 3) {
		send = &GStmt{Kind: StSend, Sent: &GSent{E: lit(asset, n)}, Src: &GSource{Kind: SrcInorder, Subs: []*GSource{{Kind: SrcCapped, Cap: &GExpr{Kind: XVar, S: "cap"}, From: srcAcct("a")}, srcAcct("world")}}, Dst: dstAcct("x")}
	}
	if g.r.Chance(1, 2) {
		g.prog.Stmts = append(g.prog.Stmts, rewrite, send)
	} else {
		g.prog.Stmts = append(g.prog.Stmts, send, rewrite)
	}
	return g.prog
}

// zeroTwins: two accounts whose balance is exactly zero (the store says so explicitly), one of them
// is credited by a first statement, a second statement draws from both: a zero is not a shared number.
func (g *Gen) zeroTwinsProgram() *GProgram {
	asset := "USD"
	g.asset = asset
	g.bal["till"] = map[string]*big.Int{asset: bi(0)}
	g.bal["float"] = map[string]*big.Int{asset: bi(0)}
	g.bal["b"] = map[string]*big.Int{asset: bi(int64(g.r.Intn(2) * g.r.Intn(20)))}
	n1 := int64(1 + g.r.Intn(40))
	to := g.r.Pick([]string{"float", "till"})
	g.prog.Stmts = append(g.prog.Stmts, &GStmt{Kind: StSend, Sent: &GSent{E: lit(asset, bi(n1))}, Src: srcAcct("world"), Dst: dstAcct(to)})
	subs := []*GSource{srcAcct("till"), srcAcct("float")}
	if g.r.Chance(1, 2) {
		subs = append(subs, srcAcct("b"))
	}
	if g.r.Chance(1, 3) {
		subs[0], subs[1] = subs[1], subs[0]
	}
	sent := &GSent{E: lit(asset, bi(int64(1+g.r.Intn(int(n1)+5))))}
	if g.r.Chance(1, 4) {
		sent = &GSent{All: true, E: &GExpr{Kind: XAsset, S: asset}}
	}
	g.prog.Stmts = append(g.prog.Stmts, &GStmt{Kind: StSend, Sent: sent, Src: &GSource{Kind: SrcInorder, Subs: subs}, Dst: dstAcct("shop")})
	return g.prog
}

// keyCollision: account names and asset names chosen so that gluing them together without a separator
// gives the same text for different pairs (`x`+`AB` = `xA`+`B`): every (account, asset) pair is its own cell.
func (g *Gen) keyCollisionProgram() *GProgram {
	g.asset = "AB"
	g.bal["x"] = map[string]*big.Int{"AB": bi(int64(5 + g.r.Intn(40))), "B": bi(int64(g.r.Intn(9)))}
	g.bal["xA"] = map[string]*big.Int{"B": bi(int64(5 + g.r.Intn(40))), "AB": bi(int64(g.r.Intn(9)))}
	g.bal["x:A"] = map[string]*big.Int{"B": bi(int64(g.r.Intn(20)))}
	send := func(src, asset string) {
		n := bi(int64(1 + g.r.Intn(30)))
		var s *GSource = srcAcct(src)
		if g.r.Chance(1, 2) {
			s = &GSource{Kind: SrcInorder, Subs: []*GSource{srcAcct(src), srcAcct("world")}}
		}
		sent := &GSent{E: lit(asset, n)}
		if g.r.Chance(1, 4) {
			sent = &GSent{All: true, E: &GExpr{Kind: XAsset, S: asset}}
			s = srcAcct(src)
		}
		g.prog.Stmts = append(g.prog.Stmts, &GStmt{Kind: StSend, Sent: sent, Src: s, Dst: dstAcct("c")})
	}
	if g.r.Chance(1, 2) {
		send("x", "AB")
		send("xA", "B")
	} else {
		send("xA", "B")
		send("x", "AB")
	}
	if g.r.Chance(1, 3) {
		send("x:A", "B")
	}
	return g.prog
}

// edgeCapSum: a cap written as a sum or difference of NUMBER variables around the edge of the machine word
// (`max [USD $na + $nb]`), in a destination (dest) or in a source: arithmetic on amounts has no word size.
func (g *Gen) edgeCapSumProgram(dest bool) *GProgram {
	asset := "USD"
	g.asset = asset
	edge := []*big.Int{new(big.Int).Sub(pow2(63), bi(1)), pow2(62), pow2(63), new(big.Int).Sub(pow2(64), bi(1)), new(big.Int).Sub(pow2(62), bi(1)),
		new(big.Int).Add(pow2(62), bi(int64(g.r.Intn(100)))), new(big.Int).Sub(pow2(63), bi(int64(1+g.r.Intn(100)))), bi(int64(g.r.Intn(100)))}
	a, b := edge[g.r.Intn(len(edge))], edge[g.r.Intn(len(edge))]
	g.prog.Vars = append(g.prog.Vars, &GVarDecl{Type: "number", Name: "na"}, &GVarDecl{Type: "number", Name: "nb"})
	g.rawVars["na"], g.rawVars["nb"] = a.String(), b.String()
	op := "+"
	capv := new(big.Int).Add(a, b)
	if g.r.Chance(1, 4) {
		op, capv = "-", new(big.Int).Sub(a, b)
	}
	sum := &GExpr{Kind: XInfix, Op: op, A: &GExpr{Kind: XVar, S: "na"}, B: &GExpr{Kind: XVar, S: "nb"}}
	if g.r.Chance(1, 3) {
		c := bi(int64(g.r.Intn(200)))
		g.prog.Vars = append(g.prog.Vars, &GVarDecl{Type: "number", Name: "nc"})
		g.rawVars["nc"] = c.String()
		sum = &GExpr{Kind: XInfix, Op: "+", A: sum, B: &GExpr{Kind: XVar, S: "nc"}}
		capv.Add(capv, c)
	}
	capE := &GExpr{Kind: XMonetary, A: &GExpr{Kind: XAsset, S: asset}, B: sum}
	// the amount sent: more than the cap, exactly the cap, or less
	n := new(big.Int).Add(new(big.Int).Abs(capv), bi(int64(g.r.Intn(1000))))
	switch g.r.Intn(4) {
	case 0:
		n = new(big.Int).Abs(capv)
	case 1:
		n = new(big.Int).Rsh(new(big.Int).Abs(capv), 1)
	}
	if dest {
		g.prog.Stmts = append(g.prog.Stmts, &GStmt{Kind: StSend, Sent: &GSent{E: lit(asset, n)}, Src: srcAcct("world"),
			Dst: &GDest{Kind: DstInorder, Clauses: []*GClause{{Cap: capE, To: &GKod{To: dstAcct("x")}}}, Remaining: &GKod{To: dstAcct("y")}}})
		return g.prog
	}
	g.bal["a"] = map[string]*big.Int{asset: new(big.Int).Add(n, bi(int64(g.r.Intn(50))))}
	g.prog.Stmts = append(g.prog.Stmts, &GStmt{Kind: StSend, Sent: &GSent{E: lit(asset, n)},
		Src: &GSource{Kind: SrcInorder, Subs: []*GSource{{Kind: SrcCapped, Cap: capE, From: srcAcct("a")}, srcAcct("world")}}, Dst: dstAcct("x")})
	return g.prog
}

// saveDiff: the saved amount is written as a difference or a sum of monetary variables and literals, with a zero
// on one side or a negative result (`save $planned - $spent from @a`): then @a is drawn.
func (g *Gen) saveDiffProgram() *GProgram {
	asset := "USD"
	g.asset = asset
	g.smallBalances([]string{"a", "b"}, asset, 40)
	small := func() *big.Int {
		if g.r.Chance(1, 3) {
			return bi(0)
		}
		return bi(int64(g.r.Intn(30)))
	}
	p, q := small(), small()
	g.prog.Vars = append(g.prog.Vars, &GVarDecl{Type: "monetary", Name: "planned"}, &GVarDecl{Type: "monetary", Name: "spent"})
	g.rawVars["planned"], g.rawVars["spent"] = asset+" "+p.String(), asset+" "+q.String()
	operand := func(name string, v *big.Int) *GExpr {
		if g.r.Chance(1, 3) {
			return lit(asset, v)
		}
		return &GExpr{Kind: XVar, S: name}
	}
	op := g.r.Pick([]string{"-", "-", "+"})
	e := &GExpr{Kind: XInfix, Op: op, A: operand("planned", p), B: operand("spent", q)}
	if g.r.Chance(1, 5) {
		e = &GExpr{Kind: XInfix, Op: "-", A: e, B: operand("spent", q)}
	}
	g.prog.Stmts = append(g.prog.Stmts, &GStmt{Kind: StSave, Sent: &GSent{E: e}, Acct: acct("a")})
	var src *GSource = srcAcct("a")
	if g.r.Chance(1, 3) {
		src = &GSource{Kind: SrcInorder, Subs: []*GSource{srcAcct("a"), srcAcct("world")}}
	}
	sent := &GSent{E: lit(asset, bi(int64(g.r.Intn(50))))}
	if g.r.Chance(1, 3) {
		sent, src = &GSent{All: true, E: &GExpr{Kind: XAsset, S: asset}}, srcAcct("a")
	}
	g.prog.Stmts = append(g.prog.Stmts, &GStmt{Kind: StSend, Sent: sent, Src: src, Dst: dstAcct("c")})
	return g.prog
}

// sweepDebt: `send [A *]` from an account that holds nothing or owes (no posting, nothing changes), then the
// same account is drawn with a bounded overdraft: the debt is still there.
func (g *Gen) sweepDebtProgram() *GProgram {
	asset := "USD"
	g.asset = asset
	g.smallBalances([]string{"b"}, asset, 20)
	switch g.r.Intn(4) {
	case 0:
		g.bal["a"] = map[string]*big.Int{asset: bi(0)}
	case 1:
		g.bal["a"] = map[string]*big.Int{asset: bi(int64(1 + g.r.Intn(20)))}
	default:
		g.bal["a"] = map[string]*big.Int{asset: bi(-int64(1 + g.r.Intn(60)))}
	}
	sweepDst := dstAcct("c")
	if g.r.Chance(1, 4) {
		sweepDst = &GDest{Kind: DstInorder, Clauses: []*GClause{{Cap: lit(asset, bi(5)), To: &GKod{To: dstAcct("c")}}}, Remaining: &GKod{To: dstAcct("d")}}
	}
	g.prog.Stmts = append(g.prog.Stmts, &GStmt{Kind: StSend, Sent: &GSent{All: true, E: &GExpr{Kind: XAsset, S: asset}}, Src: srcAcct("a"), Dst: sweepDst})
	if g.r.Chance(1, 4) {
		g.prog.Stmts = append(g.prog.Stmts, &GStmt{Kind: StSend, Sent: &GSent{E: lit(asset, bi(int64(g.r.Intn(15))))}, Src: srcAcct("world"), Dst: dstAcct("a")})
	}
	grant := int64(20 + g.r.Intn(80))
	n := bi(grant - 10 + int64(g.r.Intn(40)))
	var src *GSource = &GSource{Kind: SrcInorder, Subs: []*GSource{{Kind: SrcOverdraft, E: acct("a"), Bounded: lit(asset, bi(grant))}, srcAcct("world")}}
	sent := &GSent{E: lit(asset, n)}
	switch g.r.Intn(4) {
	case 0:
		src = &GSource{Kind: SrcOverdraft, E: acct("a"), Bounded: lit(asset, bi(grant))}
	case 1:
		src, sent = &GSource{Kind: SrcOverdraft, E: acct("a"), Bounded: lit(asset, bi(grant))}, &GSent{All: true, E: &GExpr{Kind: XAsset, S: asset}}
	}
	g.prog.Stmts = append(g.prog.Stmts, &GStmt{Kind: StSend, Sent: sent, Src: src, Dst: dstAcct("e-x_1")})
	return g.prog
}

// nestedDebt: an account that owes, with a bounded overdraft, INSIDE a nested block or a nested allotment that
// also holds @world (or an unbounded overdraft), followed by another source: whatever the nesting, the balance of
// every account that may be drawn is known before it is drawn.
func (g *Gen) nestedDebtProgram() *GProgram {
	asset := "USD"
	g.asset = asset
	debt, grant := int64(5+g.r.Intn(90)), int64(20+g.r.Intn(100))
	g.bal["a"] = map[string]*big.Int{asset: bi(-debt)}
	if g.r.Chance(1, 5) {
		g.bal["a"] = map[string]*big.Int{asset: bi(int64(g.r.Intn(30)))}
	}
	g.bal["c"] = map[string]*big.Int{asset: bi(int64(100 + g.r.Intn(400)))}
	over := &GSource{Kind: SrcOverdraft, E: acct("a"), Bounded: lit(asset, bi(grant))}
	var never *GSource = srcAcct("world")
	if g.r.Chance(1, 3) {
		never = &GSource{Kind: SrcOverdraft, E: acct("b")}
	}
	var inner *GSource
	if g.r.Chance(1, 3) {
		inner = &GSource{Kind: SrcAllot, Items: []*GSrcItem{{Allot: &GAllot{Kind: AlRatio, E: g.ratio(bi(1), bi(2))}, From: over}, {Allot: &GAllot{Kind: AlRatio, E: g.ratio(bi(1), bi(2))}, From: never}}}
	} else {
		inner = &GSource{Kind: SrcInorder, Subs: []*GSource{over, never}}
		if g.r.Chance(1, 3) {
			inner = &GSource{Kind: SrcInorder, Subs: []*GSource{{Kind: SrcInorder, Subs: []*GSource{over}}, never}}
		}
	}
	outer := &GSource{Kind: SrcInorder, Subs: []*GSource{inner, srcAcct("c")}}
	if g.r.Chance(1, 4) {
		outer = &GSource{Kind: SrcInorder, Subs: []*GSource{srcAcct("b"), inner, srcAcct("c")}}
		g.bal["b"] = map[string]*big.Int{asset: bi(int64(g.r.Intn(10)))}
	}
	n := bi(grant - 10 + int64(g.r.Intn(60)))
	g.prog.Stmts = append(g.prog.Stmts, &GStmt{Kind: StSend, Sent: &GSent{E: lit(asset, n)}, Src: outer, Dst: dstAcct("e-x_1")})
	return g.prog
}

// negVarSend: the amount sent is a monetary VARIABLE (given by the caller, or read from metadata) that may be
// negative or zero: `send $amount (...)` is refused like `send [A -5]` is.
func (g *Gen) negVarSendProgram() *GProgram {
	asset := g.r.Pick([]string{"USD", "USD/2", "EUR"})
	g.asset = asset
	g.smallBalances([]string{"a", "b"}, asset, 40)
	n := int64(g.r.Intn(60)) - 40
	raw := fmt.Sprintf("%s %d", asset, n)
	if g.r.Chance(1, 3) {
		if g.meta["a"] == nil {
			g.meta["a"] = map[string]string{}
		}
		g.meta["a"]["due"] = raw
		g.prog.Vars = append(g.prog.Vars, &GVarDecl{Type: "monetary", Name: "amount", Origin: &GFnCall{Name: "meta", Args: []*GExpr{acct("a"), {Kind: XString, S: "due"}}}})
	} else {
		g.prog.Vars = append(g.prog.Vars, &GVarDecl{Type: "monetary", Name: "amount"})
		g.rawVars["amount"] = raw
	}
	src := []*GSource{srcAcct("world"), srcAcct("a"), {Kind: SrcInorder, Subs: []*GSource{srcAcct("a"), srcAcct("world")}}, {Kind: SrcOverdraft, E: acct("b")}}[g.r.Intn(4)]
	var dst *GDest = dstAcct("c")
	if g.r.Chance(1, 3) {
		dst = &GDest{Kind: DstInorder, Clauses: []*GClause{{Cap: lit(asset, bi(5)), To: &GKod{To: dstAcct("c")}}}, Remaining: &GKod{To: dstAcct("d")}}
	}
	if g.r.Chance(1, 3) {
		g.prog.Stmts = append(g.prog.Stmts, &GStmt{Kind: StSend, Sent: &GSent{E: lit(asset, bi(int64(g.r.Intn(9))))}, Src: srcAcct("world"), Dst: dstAcct("b")})
	}
	g.prog.Stmts = append(g.prog.Stmts, &GStmt{Kind: StSend, Sent: &GSent{E: &GExpr{Kind: XVar, S: "amount"}}, Src: src, Dst: dst})
	return g.prog
}
