package main

import (
	"context"
	"errors"
	"fmt"
	"math/big"
	"strings"

	"github.com/formancehq/numscript"
	"github.com/formancehq/numscript/internal/interpreter"
)

// ---------------------------------------------------------------------------------------------
// Stores. All of them log the calls they receive; `failAt` injects an error at the k-th call.

const injectedFailure = "injected store failure"

// the store's failure wraps a cause, as real stores do: its message is the whole text, not the cause's
func injectedErr() error { return fmt.Errorf("injected store %w", errors.New("failure")) }

type storeKind int

const (
	skStatic storeKind = iota
	skExact
	skSparse
	skSuperset
	skPoison // the requested cells at their value, plus everything else it holds at a WRONG value (+1000003)
)

var storeKindCoq = []string{"SKStatic", "SKExact", "SKSparse", "SKSuperset", "SKPoison"}

type storeCall struct {
	balances numscript.BalanceQuery // nil for a metadata call
	account  string
	key      string
}

type testStore struct {
	kind    storeKind
	bal     numscript.Balances
	meta    numscript.AccountsMetadata
	failAt  int // -1: never
	ncalls  int
	log     []storeCall
	static_ numscript.StaticStore
	alias   bool // equal amounts of one answer share ONE *big.Int: legal for a store, fatal for a caller that writes into what it is given
}

// aliasEqual makes the cells of b that hold equal amounts point to one and the same number
func aliasEqual(b numscript.Balances) numscript.Balances {
	seen := map[string]*big.Int{}
	for _, a := range sortedKeys(b) {
		for _, c := range sortedKeys(b[a]) {
			if b[a][c] == nil {
				continue
			}
			k := b[a][c].String()
			if p, ok := seen[k]; ok {
				b[a][c] = p
			} else {
				seen[k] = b[a][c]
			}
		}
	}
	return b
}

func (s *testStore) aliased() *testStore {
	s.alias = true
	if s.kind == skStatic {
		aliasEqual(s.bal) // the bundled store hands out its own maps
	}
	return s
}

func newStore(kind storeKind, bal numscript.Balances, meta numscript.AccountsMetadata, failAt int) *testStore {
	return &testStore{kind: kind, bal: bal, meta: meta, failAt: failAt, static_: numscript.StaticStore{Balances: bal, Meta: meta}}
}

func copyQuery(q numscript.BalanceQuery) numscript.BalanceQuery {
	out := numscript.BalanceQuery{}
	for a, cs := range q {
		out[a] = append([]string(nil), cs...)
	}
	return out
}

func (s *testStore) GetBalances(ctx context.Context, q numscript.BalanceQuery) (numscript.Balances, error) {
	i := s.ncalls
	s.ncalls++
	if i == s.failAt {
		if len(q)%2 == 1 {
			// an error comes with whatever the store had gathered so far: a non-nil, partial answer
			partial := numscript.Balances{}
			for a := range q {
				partial[a] = numscript.AccountBalance{}
				break
			}
			return partial, injectedErr()
		}
		return nil, injectedErr()
	}
	s.log = append(s.log, storeCall{balances: copyQuery(q)})
	switch s.kind {
	case skStatic:
		// the bundled store: returns its own maps
		return s.static_.GetBalances(ctx, q)
	case skSuperset:
		if s.alias {
			return aliasEqual(deepCopyBalances(s.bal)), nil
		}
		return deepCopyBalances(s.bal), nil
	}
	out := numscript.Balances{}
	for a, cs := range q {
		for _, c := range cs {
			v, ok := s.bal[a][c]
			if s.kind == skSparse && (!ok || v.Sign() == 0) {
				if (len(a)+len(c))%2 == 0 {
					// "nothing to say" written as a nil amount instead of a missing entry: the same thing for a caller
					if out[a] == nil {
						out[a] = numscript.AccountBalance{}
					}
					out[a][c] = nil
				}
				continue
			}
			if out[a] == nil {
				out[a] = numscript.AccountBalance{}
			}
			if ok {
				out[a][c] = new(big.Int).Set(v)
			} else {
				out[a][c] = big.NewInt(0)
			}
		}
	}
	if s.kind == skPoison {
		for a, m := range s.bal {
			for c, v := range m {
				asked := false
				for _, qc := range q[a] {
					if qc == c {
						asked = true
					}
				}
				if _, has := q[a]; !has {
					asked = false
				}
				if !asked {
					if out[a] == nil {
						out[a] = numscript.AccountBalance{}
					}
					out[a][c] = new(big.Int).Add(v, big.NewInt(1000003))
				}
			}
		}
	}
	if s.alias {
		aliasEqual(out)
	}
	return out, nil
}

func (s *testStore) GetAccountsMetadata(ctx context.Context, q numscript.MetadataQuery) (numscript.AccountsMetadata, error) {
	i := s.ncalls
	s.ncalls++
	if i == s.failAt {
		return nil, injectedErr()
	}
	for a, ks := range q {
		for _, k := range ks {
			s.log = append(s.log, storeCall{account: a, key: k})
		}
	}
	switch s.kind {
	case skStatic:
		return s.static_.GetAccountsMetadata(ctx, q)
	case skSuperset:
		return deepCopyMeta(s.meta), nil
	}
	out := numscript.AccountsMetadata{}
	for a, ks := range q {
		for _, k := range ks {
			if v, ok := s.meta[a][k]; ok {
				if out[a] == nil {
					out[a] = numscript.AccountMetadata{}
				}
				out[a][k] = v
			}
		}
	}
	return out, nil
}

func deepCopyBalances(b numscript.Balances) numscript.Balances {
	out := numscript.Balances{}
	for a, m := range b {
		out[a] = numscript.AccountBalance{}
		for c, v := range m {
			out[a][c] = new(big.Int).Set(v)
		}
	}
	return out
}

func deepCopyMeta(m numscript.AccountsMetadata) numscript.AccountsMetadata {
	out := numscript.AccountsMetadata{}
	for a, x := range m {
		out[a] = numscript.AccountMetadata{}
		for k, v := range x {
			out[a][k] = v
		}
	}
	return out
}

func balancesEqual(a, b numscript.Balances) bool {
	if len(a) != len(b) {
		return false
	}
	for k, m := range a {
		n, ok := b[k]
		if !ok || len(m) != len(n) {
			return false
		}
		for c, v := range m {
			w, ok := n[c]
			if !ok || v.Cmp(w) != 0 {
				return false
			}
		}
	}
	return true
}

func metaEqual(a, b numscript.AccountsMetadata) bool {
	if len(a) != len(b) {
		return false
	}
	for k, m := range a {
		n, ok := b[k]
		if !ok || len(m) != len(n) {
			return false
		}
		for c, v := range m {
			if w, ok := n[c]; !ok || v != w {
				return false
			}
		}
	}
	return true
}

// ---------------------------------------------------------------------------------------------
// One execution of the implementation and what is observed of it.

type Outcome struct {
	Class     string // "ok", an error type name, or "panic"
	Msg       string
	Res       numscript.ExecutionResult
	ResEmpty  bool
	Log       []storeCall
	PanicText string
}

func runImpl(text string, vars map[string]string, st numscript.Store, flag bool) (out Outcome) {
	defer func() {
		if r := recover(); r != nil {
			out = Outcome{Class: "panic", PanicText: fmt.Sprint(r)}
		}
	}()
	p := numscript.Parse(text)
	var flags map[string]struct{}
	if flag {
		flags = map[string]struct{}{interpreter.ExperimentalOverdraftFunctionFeatureFlag: {}}
	}
	if ts, ok := st.(*testStore); ok && (len(text)%2 == 0 || ts.kind == skStatic && strings.Contains(text, "set_account_meta")) {
		// one case in two: the parsed program has ALREADY been run once, with other amounts in its
		// variables and against a copy of the store - a parsed program keeps nothing from a run
		func() {
			defer func() { recover() }()
			warm := map[string]string{}
			for k, v := range vars {
				warm[k] = perturbVar(v)
			}
			if ts.kind == skStatic {
				// the bundled store hands out its own maps: the warm-up runs against the VERY store of the
				// case (a run leaves the store as it found it), without counting its calls
				fa := ts.failAt
				ts.failAt = -1
				p.RunWithFeatureFlags(context.Background(), warm, ts, flags)
				ts.failAt, ts.ncalls, ts.log = fa, 0, nil
				return
			}
			p.RunWithFeatureFlags(context.Background(), warm, newStore(ts.kind, deepCopyBalances(ts.bal), deepCopyMeta(ts.meta), -1), flags)
		}()
	}
	res, err := p.RunWithFeatureFlags(context.Background(), vars, st, flags)
	if err != nil {
		name := fmt.Sprintf("%T", err)
		name = name[strings.LastIndex(name, ".")+1:]
		return Outcome{Class: name, Msg: err.Error(), Res: res,
			ResEmpty: res.Postings == nil && res.Metadata == nil && res.AccountsMetadata == nil}
	}
	return Outcome{Class: "ok", Res: res}
}

// perturbVar: the same kind of text with another amount ("USD 5" -> "USD 12", "7" -> "14"); anything else unchanged
func perturbVar(v string) string {
	fs := strings.Fields(v)
	if len(fs) == 0 {
		return v
	}
	other := func(a string) string {
		if a == "USD" {
			return "EUR"
		}
		return "USD"
	}
	last := fs[len(fs)-1]
	n, ok := new(big.Int).SetString(last, 10)
	if !ok {
		if len(fs) == 1 && len(v) > 1 && strings.ToUpper(v) == v && strings.Trim(v, "ABCDEFGHIJKLMNOPQRSTUVWXYZ/0123456789") == "" {
			return other(v) // an asset: the earlier run was about another one
		}
		return v
	}
	if len(fs) == 2 && n.Bit(0) == 0 {
		fs[0] = other(fs[0])
	}
	fs[len(fs)-1] = n.Add(n, big.NewInt(7)).String()
	return strings.Join(fs, " ")
}

// ---------------------------------------------------------------------------------------------
// Coq rendering of inputs and observations.

func coqBalances(b numscript.Balances) string {
	var xs []string
	for _, a := range sortedKeys(b) {
		for _, c := range sortedKeys(b[a]) {
			xs = append(xs, fmt.Sprintf("((%s, %s), %s)", coqStr(a), coqStr(c), coqZ(b[a][c])))
		}
	}
	return coqList(xs)
}

func coqMeta(m numscript.AccountsMetadata) string {
	var xs []string
	for _, a := range sortedKeys(m) {
		var ys []string
		for _, k := range sortedKeys(m[a]) {
			ys = append(ys, fmt.Sprintf("(%s, %s)", coqStr(k), coqStr(m[a][k])))
		}
		xs = append(xs, fmt.Sprintf("(%s, %s)", coqStr(a), coqList(ys)))
	}
	return coqList(xs)
}

func coqVars(v map[string]string) string {
	var xs []string
	for _, k := range sortedKeys(v) {
		xs = append(xs, fmt.Sprintf("(%s, %s)", coqStr(k), coqStr(v[k])))
	}
	return coqList(xs)
}

func coqValue(v numscript.Value) string {
	switch v := v.(type) {
	case interpreter.String:
		return "(VString " + coqStr(string(v)) + ")"
	case interpreter.Asset:
		return "(VAsset " + coqStr(string(v)) + ")"
	case interpreter.AccountAddress:
		return "(VAccount " + coqStr(string(v)) + ")"
	case interpreter.MonetaryInt:
		x := big.Int(v)
		return "(VNumber " + coqZ(&x) + ")"
	case interpreter.Monetary:
		x := big.Int(v.Amount)
		return "(VMonetary " + coqStr(string(v.Asset)) + " " + coqZ(&x) + ")"
	case interpreter.Portion:
		x := big.Rat(v)
		return "(VPortion (" + coqZ(x.Num()) + " # " + x.Denom().String() + "))"
	}
	panic(fmt.Sprintf("coqValue: %T", v))
}

func coqPostings(ps []numscript.Posting) string {
	var xs []string
	for _, p := range ps {
		amt := "0"
		if p.Amount != nil {
			amt = coqZ(p.Amount)
		}
		xs = append(xs, fmt.Sprintf("(mkposting %s %s %s %s)", coqStr(p.Source), coqStr(p.Destination), amt, coqStr(p.Asset)))
	}
	return coqList(xs)
}

func coqLog(log []storeCall) string {
	var xs []string
	for _, c := range log {
		if c.balances != nil {
			var qs []string
			for _, a := range sortedKeys(c.balances) {
				var cs []string
				for _, x := range c.balances[a] {
					cs = append(cs, coqStr(x))
				}
				qs = append(qs, fmt.Sprintf("(%s, %s)", coqStr(a), coqList(cs)))
			}
			xs = append(xs, "(CallBalances "+coqList(qs)+")")
		} else {
			xs = append(xs, fmt.Sprintf("(CallMeta %s %s)", coqStr(c.account), coqStr(c.key)))
		}
	}
	return coqList(xs)
}

func coqBool(b bool) string {
	if b {
		return "true"
	}
	return "false"
}

func coqObserved(o Outcome, log []storeCall) (out string) {
	defer func() {
		if r := recover(); r != nil {
			out = "(ObsPanic " + coqStr("result cannot be rendered (corrupted number): "+fmt.Sprint(r)) + ")"
		}
	}()
	switch o.Class {
	case "ok":
		var tm []string
		for _, k := range sortedKeys(o.Res.Metadata) {
			tm = append(tm, fmt.Sprintf("(%s, %s)", coqStr(k), coqValue(o.Res.Metadata[k])))
		}
		return fmt.Sprintf("(ObsOk %s %s %s %s)", coqPostings(o.Res.Postings), coqList(tm), coqMeta(o.Res.AccountsMetadata), coqLog(log))
	case "panic":
		return "(ObsPanic " + coqStr(o.PanicText) + ")"
	}
	return fmt.Sprintf("(ObsErr %s %s %s)", coqStr(o.Class), coqBool(o.ResEmpty), coqStr(o.Msg))
}
