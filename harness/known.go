package main

import (
	"strconv"

	"github.com/antlr4-go/antlr/v4"
	antlrparser "github.com/formancehq/numscript/internal/parser/antlr"
)

// knownSignature returns the id of the open finding of known_findings.json whose input
// signature the text matches ("" when none). F-D10: the text contains a NUMBER token whose
// value is outside the range of Go's int. The token stream is the implementation's own lexer
// (the signature is about the input, and which characters form a NUMBER token is defined by the
// grammar).
func knownSignature(text string) (id string) {
	defer func() {
		if r := recover(); r != nil {
			id = ""
		}
	}()
	lexer := antlrparser.NewNumscriptLexer(antlr.NewInputStream(text))
	lexer.RemoveErrorListeners()
	for {
		tk := lexer.NextToken()
		if tk.GetTokenType() == antlr.TokenEOF {
			return ""
		}
		if tk.GetTokenType() == antlrparser.NumscriptLexerNUMBER {
			if _, err := strconv.Atoi(tk.GetText()); err != nil {
				return "F-D10"
			}
		}
	}
}
