// Correspondence harness: generates cases for one property, runs the implementation (the
// numscript module this file is compiled into through `go build -overlay`) on each of them and
// writes (input, observed output) pairs as Coq files that evaluate the model and the property
// predicate on the same inputs. See DESIGN.md section 3.2.
package main

import (
	"crypto/sha256"
	"encoding/hex"
	"encoding/json"
	"flag"
	"fmt"
	"os"
	"path/filepath"
	"sort"
	"strings"
)

// CaseInfo is what is kept about a case outside Coq: enough to replay it and to describe it.
type CaseInfo struct {
	Index      int               `json:"index"`
	Kind       string            `json:"kind"`            // which case constructor / judge
	Text       string            `json:"text,omitempty"`  // script text
	Vars       map[string]string `json:"vars,omitempty"`
	Balances   map[string]map[string]string `json:"balances,omitempty"`
	Meta       map[string]map[string]string `json:"meta,omitempty"`
	Store      string            `json:"store,omitempty"`
	FailAt     int               `json:"fail_at"`
	Flag       bool              `json:"flag"`
	Extra      map[string]any    `json:"extra,omitempty"`
	Observed   string            `json:"observed"`        // short rendering of what the implementation did
	Class      string            `json:"class"`           // outcome class
	Known      string            `json:"known,omitempty"` // id of the known finding whose signature the input matches
	Group      int               `json:"group"`
	Hash       string            `json:"hash"`
	Coq        string            `json:"-"`
}

type Ctx struct {
	prop    string
	tier    string
	seed    uint64
	outDir  string
	n       int
	groups  []group // each group of cases has its own Coq case type and judge
	cases   []*CaseInfo
	stats   map[string]int
	cur     int
	replay  *CaseInfo
}

type group struct {
	Name, Ctype, Judge string
	Shard             int
}

// group starts (or resumes) a group of cases judged by the Coq function [judge] over [ctype].
func (c *Ctx) group(name, ctype, judge string) {
	for i, g := range c.groups {
		if g.Name == name {
			c.cur = i
			return
		}
	}
	c.groups = append(c.groups, group{name, ctype, judge, shardSize})
	c.cur = len(c.groups) - 1
}

// shard sets the number of cases per generated Coq file for the current group (heavy cases: fewer).
func (c *Ctx) shard(n int) { c.groups[c.cur].Shard = n }

func (c *Ctx) count(key string) { c.stats[key]++ }

func (c *Ctx) add(ci *CaseInfo) {
	ci.Index = len(c.cases)
	ci.Group = c.cur
	h := sha256.Sum256([]byte(ci.Coq))
	ci.Hash = hex.EncodeToString(h[:8])
	c.cases = append(c.cases, ci)
	c.count("class:" + ci.Class)
}

const shardSize = 100

func (c *Ctx) flush() error {
	if c.outDir == "" {
		return nil
	}
	if err := os.MkdirAll(c.outDir, 0o755); err != nil {
		return err
	}
	old, _ := filepath.Glob(filepath.Join(c.outDir, "cases_*.v"))
	for _, f := range old {
		os.Remove(f)
	}
	nshards := 0
	var shardCases [][]int
	for gi, g := range c.groups {
		var idx []int
		for i, ci := range c.cases {
			if ci.Group == gi {
				idx = append(idx, i)
			}
		}
		for start := 0; start < len(idx); start += g.Shard {
			end := start + g.Shard
			if end > len(idx) {
				end = len(idx)
			}
			var sb strings.Builder
			sb.WriteString("From NS Require Import Judge.\n")
			fmt.Fprintf(&sb, "Definition cases : list %s := [\n", g.Ctype)
			for k := start; k < end; k++ {
				sb.WriteString(c.cases[idx[k]].Coq)
				if k+1 < end {
					sb.WriteString(";")
				}
				sb.WriteString("\n")
			}
			sb.WriteString("].\n")
			fmt.Fprintf(&sb, "Definition verdicts := Eval vm_compute in verdict_string %s cases.\nPrint verdicts.\n", g.Judge)
			name := filepath.Join(c.outDir, fmt.Sprintf("cases_%05d.v", nshards))
			if err := os.WriteFile(name, []byte(sb.String()), 0o644); err != nil {
				return err
			}
			shardCases = append(shardCases, idx[start:end])
			nshards++
		}
	}
	distinct := map[string]bool{}
	for _, ci := range c.cases {
		distinct[ci.Hash] = true
	}
	keys := make([]string, 0, len(c.stats))
	for k := range c.stats {
		keys = append(keys, k)
	}
	sort.Strings(keys)
	meta := map[string]any{
		"property": c.prop, "tier": c.tier, "seed": c.seed, "groups": c.groups,
		"shards": nshards, "shard_cases": shardCases, "shard_size": shardSize, "cases": c.cases, "stats": c.stats,
		"distinct": len(distinct),
	}
	b, err := json.MarshalIndent(meta, "", " ")
	if err != nil {
		return err
	}
	return os.WriteFile(filepath.Join(c.outDir, "cases.json"), b, 0o644)
}

var registry = map[string]func(*Ctx){}

func main() {
	prop := flag.String("prop", "", "property id")
	tier := flag.String("tier", "quick", "quick | thorough")
	seed := flag.Uint64("seed", 1, "PRNG seed")
	out := flag.String("out", "", "output directory")
	n := flag.Int("n", 0, "number of cases (0: the tier's default)")
	replay := flag.String("replay", "", "replay file: a JSON CaseInfo")
	flag.Parse()
	f, ok := registry[*prop]
	if !ok {
		fmt.Fprintf(os.Stderr, "unknown property %q\n", *prop)
		os.Exit(2)
	}
	ctx := &Ctx{prop: *prop, tier: *tier, seed: *seed, outDir: *out, n: *n, stats: map[string]int{}}
	if *replay != "" {
		b, err := os.ReadFile(*replay)
		if err != nil {
			fmt.Fprintln(os.Stderr, err)
			os.Exit(2)
		}
		var ci CaseInfo
		if err := json.Unmarshal(b, &ci); err != nil {
			// a replay file may wrap the case
			var w struct{ Case CaseInfo `json:"case"` }
			if err2 := json.Unmarshal(b, &w); err2 != nil {
				fmt.Fprintln(os.Stderr, err)
				os.Exit(2)
			}
			ci = w.Case
		}
		if ci.Text == "" && ci.Extra == nil {
			var w struct{ Case CaseInfo `json:"case"` }
			if json.Unmarshal(b, &w) == nil {
				ci = w.Case
			}
		}
		ctx.replay = &ci
	}
	f(ctx)
	if err := ctx.flush(); err != nil {
		fmt.Fprintln(os.Stderr, err)
		os.Exit(2)
	}
	fmt.Printf("harness: property=%s tier=%s seed=%d cases=%d\n", *prop, *tier, *seed, len(ctx.cases))
}

func (c *Ctx) size(quick, thorough int) int {
	if c.n > 0 {
		return c.n
	}
	if c.tier == "thorough" {
		return thorough
	}
	// the quick tier is sized to finish within about half a minute on 16 cores: the properties whose
	// cases are cheap to run and to judge get twice the volume
	switch c.prop {
	case "C01", "C02", "C03", "C04", "C05", "C06", "C07", "C08", "C09", "C10", "C11", "C13", "C16", "C18":
		return quick * 6
	}
	return quick * 3
}
