package main

import "math/big"

// Rand is a splitmix64 generator: every random choice of the harness derives from one state,
// so a (property, tier, seed, case index) tuple replays exactly.
type Rand struct{ s uint64 }

func NewRand(seed uint64) *Rand { return &Rand{s: seed*0x9E3779B97F4A7C15 + 0x1234567} }

func (r *Rand) U64() uint64 {
	r.s += 0x9E3779B97F4A7C15
	z := r.s
	z = (z ^ (z >> 30)) * 0xBF58476D1CE4E5B9
	z = (z ^ (z >> 27)) * 0x94D049BB133111EB
	return z ^ (z >> 31)
}

// Fork returns an independent generator (used per case so that shrinking or skipping one
// case does not shift the others).
func (r *Rand) Fork() *Rand { return &Rand{s: r.U64()} }

func (r *Rand) Intn(n int) int {
	if n <= 0 {
		return 0
	}
	return int(r.U64() % uint64(n))
}

func (r *Rand) Chance(num, den int) bool { return r.Intn(den) < num }

func (r *Rand) Pick(xs []string) string { return xs[r.Intn(len(xs))] }

// Weighted returns an index drawn proportionally to the weights.
func (r *Rand) Weighted(ws ...int) int {
	t := 0
	for _, w := range ws {
		t += w
	}
	x := r.Intn(t)
	for i, w := range ws {
		if x < w {
			return i
		}
		x -= w
	}
	return len(ws) - 1
}

func bi(n int64) *big.Int { return big.NewInt(n) }

func pow2(k uint) *big.Int { return new(big.Int).Lsh(big.NewInt(1), k) }

// Amount draws from the mix of DESIGN.md 3.3: small values, values around [around] (cap±1,
// balance±1), the int64/uint64 borders and a few huge ones. Non-negative unless neg is set.
func (r *Rand) Amount(around []*big.Int, neg bool) *big.Int {
	var v *big.Int
	switch r.Weighted(30, 25, 25, 6, 6, 4, 4) {
	case 0:
		v = bi(int64(r.Intn(4)))
	case 1:
		v = bi(int64(r.Intn(30)))
	case 2:
		if len(around) > 0 {
			b := around[r.Intn(len(around))]
			v = new(big.Int).Add(b, bi(int64(r.Intn(3)-1)))
		} else {
			v = bi(int64(r.Intn(200)))
		}
	case 3:
		v = bi(int64(100 + r.Intn(1000)))
	case 4:
		v = new(big.Int).Add(pow2(63), bi(int64(r.Intn(3)-1)))
	case 5:
		v = new(big.Int).Add(pow2(64), bi(int64(r.Intn(3)-1)))
	default:
		v = new(big.Int).Exp(bi(10), bi(int64(20+r.Intn(15))), nil)
		v.Add(v, bi(int64(r.Intn(1000))))
	}
	if v.Sign() < 0 && !neg {
		v.Neg(v)
	}
	if neg && r.Chance(1, 2) {
		v.Neg(v)
	}
	return v
}

// BigBelow returns a value in [0, n) (n > 0).
func (r *Rand) BigBelow(n *big.Int) *big.Int {
	if n.Sign() <= 0 {
		return new(big.Int)
	}
	words := (n.BitLen() + 63) / 64
	v := new(big.Int)
	for i := 0; i < words+1; i++ {
		v.Lsh(v, 64)
		v.Or(v, new(big.Int).SetUint64(r.U64()))
	}
	return v.Mod(v, n)
}
