package main

import (
	"fmt"
	"math/big"

	"github.com/formancehq/numscript/internal/interpreter"
)

type rentry struct {
	Name string `json:"name"`
	Amt  string `json:"amt"`
}

func coqEntries(es []rentry) string {
	var xs []string
	for _, e := range es {
		n, _ := new(big.Int).SetString(e.Amt, 10)
		xs = append(xs, fmt.Sprintf("(%s, %s)", coqStr(e.Name), coqZ(n)))
	}
	return coqList(xs)
}

// reconcileCase calls interpreter.Reconcile directly (as the property's observe_at says).
func (c *Ctx) reconcileCase(asset string, S, R []rentry) {
	var snd []interpreter.Sender
	var rcv []interpreter.Receiver
	for _, e := range S {
		n, _ := new(big.Int).SetString(e.Amt, 10)
		snd = append(snd, interpreter.Sender{Name: e.Name, Monetary: n})
	}
	for _, e := range R {
		n, _ := new(big.Int).SetString(e.Amt, 10)
		rcv = append(rcv, interpreter.Receiver{Name: e.Name, Monetary: n})
	}
	obs := "None"
	class := "ok"
	short := ""
	func() {
		defer func() {
			if r := recover(); r != nil {
				class = "panic"
				short = fmt.Sprint(r)
			}
		}()
		ps, err := interpreter.Reconcile(asset, snd, rcv)
		if err != nil {
			class = "error"
			short = err.Error()
			return
		}
		obs = "(Some " + coqPostings(ps) + ")"
		for i, p := range ps {
			if i > 0 {
				short += "; "
			}
			short += fmt.Sprintf("%s->%s %s", p.Source, p.Destination, p.Amount)
		}
	}()
	ci := &CaseInfo{Kind: "rcase", Class: class, Observed: short, FailAt: -1,
		Extra: map[string]any{"asset": asset, "senders": S, "receivers": R}}
	ci.Coq = fmt.Sprintf("(mk_rcase %s %s %s %s)", coqStr(asset), coqEntries(S), coqEntries(R), obs)
	c.add(ci)
}

func randEntries(r *Rand, names []string, maxLen int, around []*big.Int) []rentry {
	n := r.Intn(maxLen + 1)
	var out []rentry
	for i := 0; i < n; i++ {
		var a *big.Int
		if r.Chance(1, 12) {
			// exact multiples of the machine word: a number whose low 64 bits are all zero is not zero
			a = new(big.Int).Mul(pow2(64), bi(int64(1+r.Intn(3))))
		} else if r.Chance(3, 4) {
			a = bi(int64(1 + r.Intn(9)))
		} else {
			a = r.Amount(around, false)
			if a.Sign() == 0 {
				a = bi(1)
			}
		}
		out = append(out, rentry{Name: r.Pick(names), Amt: a.String()})
	}
	return out
}

func enumEntries(names []string, maxLen int, maxAmt int64) [][]rentry {
	out := [][]rentry{{}}
	level := [][]rentry{{}}
	for l := 0; l < maxLen; l++ {
		var next [][]rentry
		for _, pre := range level {
			for _, n := range names {
				for a := int64(1); a <= maxAmt; a++ {
					e := append(append([]rentry{}, pre...), rentry{n, bi(a).String()})
					next = append(next, e)
				}
			}
		}
		out = append(out, next...)
		level = next
	}
	return out
}

func init() {
	registry["C07"] = func(c *Ctx) {
		c.group("direct", "rcase", "judge_C07_direct")
		if c.replay != nil && c.replay.Kind == "rcase" {
			var S, R []rentry
			conv := func(x any) []rentry {
				var out []rentry
				if l, ok := x.([]any); ok {
					for _, e := range l {
						m := e.(map[string]any)
						out = append(out, rentry{m["name"].(string), m["amt"].(string)})
					}
				}
				return out
			}
			S, R = conv(c.replay.Extra["senders"]), conv(c.replay.Extra["receivers"])
			c.reconcileCase(c.replay.Extra["asset"].(string), S, R)
			return
		}
		if c.replay == nil {
			root := NewRand(c.seed)
			// corpus: the shape that was wrong on the pinned tree (kept larger than the first sender)
			c.reconcileCase("USD", []rentry{{"a", "5"}, {"b", "5"}}, []rentry{{"<kept>", "8"}, {"c", "2"}})
			c.reconcileCase("USD", []rentry{{"a", "5"}, {"b", "5"}}, []rentry{{"<kept>", "5"}, {"c", "5"}})
			n := c.size(250, 3000)
			for i := 0; i < n; i++ {
				r := root.Fork()
				S := randEntries(r, []string{"a", "b", "c"}, 4, nil)
				var tot []*big.Int
				for _, e := range S {
					x, _ := new(big.Int).SetString(e.Amt, 10)
					tot = append(tot, x)
				}
				R := randEntries(r, []string{"x", "y", "a", "<kept>"}, 4, tot)
				c.reconcileCase("USD", S, R)
			}
			if c.tier == "thorough" {
				// exhaustive small scope: sender lists of length <= 3 over 2 names x amounts 1..3,
				// receiver lists of length <= 2 over 2 names + kept x amounts 1..3
				ss := enumEntries([]string{"a", "b"}, 3, 3)
				rs := enumEntries([]string{"x", "a", "<kept>"}, 2, 3)
				for _, S := range ss {
					for _, R := range rs {
						c.reconcileCase("EUR", S, R)
					}
				}
				c.stats["exhaustive_direct_cases"] = len(ss) * len(rs)
			}
		}
		c.group("sends", "icase", "judge_C07_send")
		interpCases(c, c.size(150, 6000), func(cfg *GenCfg, i int) {
			cfg.OneSend = true
			cfg.Saves = i%4 == 0
			cfg.Calls = false
			cfg.IllTyped = 0
			cfg.BadAllot = 10
			cfg.SendAll = 150
			cfg.KeptBias = i%2 == 0
			cfg.SmallPool = i%3 != 0
			cfg.WorldProb = 60
			switch i % 6 {
			case 2:
				cfg.Directed = "keptSpan"
			case 5:
				cfg.Directed = "repeatDraw"
			case 1:
				cfg.Directed = "repeatDest"
				if i%12 == 7 {
					cfg.Directed = "remainingFirst"
				}
				if i%24 == 13 {
					cfg.Directed = "wordMultiple"
				}
				if i%24 == 1 {
					cfg.Directed = "varReuseSends"
				}
			case 4:
				if i%12 == 4 {
					cfg.Directed = "repeatDraw"
				} else {
					cfg.Directed = "nestedKept"
				}
			}
		}, nil)
	}
}
