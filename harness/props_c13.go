package main

import (
	"encoding/json"
	"fmt"
	"math/big"
	"strings"

	"github.com/formancehq/numscript"
)

func simpleScenario(text string, vars map[string]string, meta numscript.AccountsMetadata) Scenario {
	if vars == nil {
		vars = map[string]string{}
	}
	if meta == nil {
		meta = numscript.AccountsMetadata{}
	}
	return Scenario{Text: text, Vars: vars, Bal: numscript.Balances{}, Meta: meta, Kind: skStatic, FailAt: -1}
}

func (c *Ctx) portionCase(text string) {
	lit := simpleScenario("set_tx_meta(\"lit\", "+text+")", nil, nil)
	vr := simpleScenario("vars { portion $p }\nset_tx_meta(\"var\", $p)", map[string]string{"p": text}, nil)
	ol, logl := lit.run()
	ov, logv := vr.run()
	tl, _ := lit.coq(ol, logl)
	tv, _ := vr.coq(ov, logv)
	ci := &CaseInfo{Kind: "c13case", Text: text, FailAt: -1}
	ci.Class = ol.Class + "/" + ov.Class
	ci.Observed = "literal: " + describeMeta(ol, "lit") + " | variable: " + describeMeta(ov, "var")
	ci.Coq = fmt.Sprintf("(mk_c13case %s %s %s)", coqStr(text), tl, tv)
	c.add(ci)
}

func describeMeta(o Outcome, k string) string {
	if o.Class != "ok" {
		return shortObserved(o)
	}
	if v, ok := o.Res.Metadata[k]; ok {
		return v.String()
	}
	return "<missing>"
}

// value expressions for the round trip: (type, expression text, variables)
type rtValue struct {
	pre   string // statements of the first script that come before the two writes
	given string // the text the value must be written as, when it is a variable given in canonical form
	typ  string
	expr string
	vars map[string]string
	decl string
}

func (c *Ctx) roundTripCase(v rtValue) {
	decl := ""
	if v.decl != "" {
		decl = "vars { " + v.decl + " }\n"
	}
	first := simpleScenario(decl+v.pre+"set_account_meta(@acct, \"k\", "+v.expr+")\nset_tx_meta(\"k\", "+v.expr+")", v.vars, nil)
	o1, log1 := first.run()
	t1, _ := first.coq(o1, log1)
	jsonText := ""
	second, plain := "None", "None"
	if o1.Class == "ok" {
		if mv, ok := o1.Res.Metadata["k"]; ok {
			func() {
				// a value corrupted by the run can make its own String() panic: that is an observation, not a crash of the harness
				defer func() {
					if r := recover(); r != nil {
						jsonText = "<the value cannot be rendered: " + fmt.Sprint(r) + ">"
					}
				}()
				if b, err := json.Marshal(mv); err == nil {
					var s string
					if json.Unmarshal(b, &s) == nil {
						jsonText = s
					} else {
						jsonText = "<not a JSON string: " + string(b) + ">"
					}
				}
			}()
		}
		stored := o1.Res.AccountsMetadata
		s2 := simpleScenario("vars { "+v.typ+" $v = meta(@acct, \"k\") }\nset_tx_meta(\"back\", $v)", nil, deepCopyMeta(stored))
		o2, log2 := s2.run()
		t2, _ := s2.coq(o2, log2)
		second = "(Some " + t2 + ")"
		text := stored["acct"]["k"]
		s3 := simpleScenario("vars { "+v.typ+" $v }\nset_tx_meta(\"back\", $v)", map[string]string{"v": text}, nil)
		o3, log3 := s3.run()
		t3, _ := s3.coq(o3, log3)
		plain = "(Some " + t3 + ")"
	}
	ci := &CaseInfo{Kind: "c13rt", Text: first.Text, Vars: v.vars, FailAt: -1, Extra: map[string]any{"type": v.typ}}
	ci.Class = o1.Class
	ci.Observed = shortObserved(o1) + " | accounts meta: " + fmt.Sprint(o1.Res.AccountsMetadata) + " | json: " + jsonText
	given := "None"
	if v.given != "" {
		given = "(Some " + coqStr(v.given) + ")"
	}
	ci.Coq = fmt.Sprintf("(mk_c13rt %s %s %s %s %s %s)", coqStr(v.typ), t1, coqStr(jsonText), second, plain, given)
	c.add(ci)
}

func digitsN(r *Rand, n int, leadingZeros bool) string {
	var sb strings.Builder
	for i := 0; i < n; i++ {
		d := r.Intn(10)
		if i == 0 && !leadingZeros && n > 1 && d == 0 {
			d = 1 + r.Intn(9)
		}
		sb.WriteByte(byte('0' + d))
	}
	return sb.String()
}

func randPortionText(r *Rand) string {
	switch r.Intn(5) {
	case 0, 1: // percentage
		i := digitsN(r, 1+r.Intn(3), r.Chance(1, 3))
		if r.Chance(1, 2) {
			return i + "%"
		}
		return i + "." + digitsN(r, 1+r.Intn(20), true) + "%"
	case 2: // ratio below one, small
		d := 1 + r.Intn(30)
		n := r.Intn(d + 1)
		sp := []string{"", " "}
		z := ""
		if r.Chance(1, 4) {
			z = "0"
		}
		return fmt.Sprintf("%s%d%s/%s%s%d", z, n, sp[r.Intn(2)], sp[r.Intn(2)], z, d)
	case 3: // huge numerals
		d := new(big.Int).Add(pow2(uint(60+r.Intn(70))), bi(int64(r.Intn(1000))))
		n := r.BigBelow(new(big.Int).Add(d, bi(1)))
		return n.String() + "/" + d.String()
	default: // anything of the grammar, possibly above one or over zero
		return digitsN(r, 1+r.Intn(3), true) + "/" + digitsN(r, 1+r.Intn(3), true)
	}
}

func init() {
	registry["C13"] = func(c *Ctx) {
		if c.replay != nil {
			if c.replay.Kind == "c13case" {
				c.group("portions", "c13case", "judge_C13_portion")
				c.portionCase(c.replay.Text)
			} else {
				c.group("roundtrips", "c13rt", "judge_C13_roundtrip")
				// the first script text carries everything needed
				lines := strings.SplitN(c.replay.Text, "set_account_meta(@acct, \"k\", ", 2)
				expr := strings.SplitN(lines[1], ")\nset_tx_meta", 2)[0]
				decl := strings.TrimSuffix(strings.TrimPrefix(strings.TrimSpace(lines[0]), "vars { "), " }")
				c.roundTripCase(rtValue{typ: c.replay.Extra["type"].(string), expr: expr, vars: c.replay.Vars, decl: decl})
			}
			return
		}
		root := NewRand(c.seed)
		c.group("portions", "c13case", "judge_C13_portion")
		c.shard(60)
		// corpus: spellings that were wrong on the pinned tree
		for _, t := range []string{"0.10%", "010%", "08%", "1/010", "1 / 010", "99999999999999999999%", "100%", "0%", "1/1", "0/5", "3/2", "101%", "1/0", "00/00", "12.50000000000000000%"} {
			c.portionCase(t)
		}
		n := c.size(240, 3000)
		for i := 0; i < n; i++ {
			r := root.Fork()
			c.portionCase(randPortionText(r))
		}
		if c.tier == "thorough" {
			// exhaustive: all percentage texts with <= 3 integer digits and <= 1 decimal, all ratios of <= 2 digits each
			count := 0
			for i := 0; i <= 999; i += 1 {
				for _, w := range []int{1, 2, 3} {
					s := fmt.Sprintf("%0*d", w, i)
					if len(s) != w {
						continue
					}
					c.portionCase(s + "%")
					count++
				}
			}
			for n := 0; n <= 99; n++ {
				for d := 0; d <= 99; d += 1 {
					if d%7 == 0 || d < 13 {
						c.portionCase(fmt.Sprintf("%d/%d", n, d))
						c.portionCase(fmt.Sprintf("%02d/%02d", n, d))
						count += 2
					}
				}
			}
			c.stats["exhaustive_portion_texts"] = count
		}
		c.group("roundtrips", "c13rt", "judge_C13_roundtrip")
		c.shard(40)
		m := c.size(120, 3000)
		strs := []string{"hello", "", "a b", "é ü", "😀 𝔘", " hello", "hello ", "  ref-001  ", " ", "\\ttab", "bell\a", "vt\vx", "\x01", "esc\x1b[0m", "del\x7f", "\U000e0001", "with \\\"quote\\\"", "1/2", "USD 10", "50%", "tab\\tno", "<kept>", "line", "ends\\\""}
		for i := 0; i < m; i++ {
			r := root.Fork()
			var v rtValue
			big1 := r.Amount(nil, true)
			switch i % 12 {
			case 0:
				v = rtValue{typ: "account", expr: "@" + r.Pick(accountPool)}
			case 1:
				name := r.Pick(append(accountPool, "A-b_c:0:z", "users:zoe", "Z", "bank:FR-ZZ_9:main", "a9", "0", "_", "x:y:z:0:9:A:Z"))
				v = rtValue{typ: "account", expr: "$x", decl: "account $x", vars: map[string]string{"x": name}, given: name}
			case 2:
				v = rtValue{typ: "asset", expr: r.Pick(append(assetPool, "A", "X/Y/9", "0A"))}
				if r.Chance(1, 2) {
					name := r.Pick(append(assetPool, "A", "Z", "X/Y/9", "0A", "ZZ9", "AZ/09"))
					v = rtValue{typ: "asset", expr: "$x", decl: "asset $x", vars: map[string]string{"x": name}, given: name}
				}
			case 3:
				v = rtValue{typ: "string", expr: "\"" + r.Pick(strs) + "\""}
			case 4:
				str := r.Pick([]string{"", " ", "a\nb", "\"", "日本", "50%", " lead", "trail ", "z", "Zz9"})
				v = rtValue{typ: "string", expr: "$x", decl: "string $x", vars: map[string]string{"x": str}, given: str}
			case 5:
				v = rtValue{typ: "number", expr: bi(int64(r.Intn(2000) - 1000)).String()}
			case 6:
				v = rtValue{typ: "number", expr: "$x", decl: "number $x", vars: map[string]string{"x": big1.String()}, given: big1.String()}
				if r.Chance(1, 2) {
					// the variable has been an operand before it is written: an operation leaves its operands alone
					v.pre = "set_tx_meta(\"tmp\", $x " + r.Pick([]string{"-", "+"}) + " " + r.Pick([]string{"5", "$x", "18446744073709551616"}) + ")\n"
					if strings.Contains(v.pre, "18446744073709551616") {
						v.pre = "set_tx_meta(\"tmp\", $x - 7)\n"
					}
				}
			case 7:
				// any spelling the ASSET token allows: letters, digits and slashes in any order
				v = rtValue{typ: "monetary", expr: "[" + r.Pick(append(assetPool, "A", "1INCH", "BTC/USD", "USD/2/3", "/2", "2KEY/8", "X/Y/9", "0A")) + " " + bi(int64(r.Intn(2000)-1000)).String() + "]"}
			case 8:
				ast := r.Pick(append(assetPool, "1INCH", "BTC/USD", "EUR/2/1"))
				v = rtValue{typ: "monetary", expr: "$x", decl: "monetary $x", vars: map[string]string{"x": ast + " " + big1.String()}, given: ast + " " + big1.String()}
				if r.Chance(1, 2) {
					v.pre = "set_tx_meta(\"tmp\", $x " + r.Pick([]string{"-", "+"}) + " " + r.Pick([]string{"[" + ast + " 5]", "$x"}) + ")\n"
				}
			case 9:
				v = rtValue{typ: "portion", expr: func() string {
					d := 1 + r.Intn(40)
					return fmt.Sprintf("%d/%d", r.Intn(d+1), d)
				}()}
			case 10:
				v = rtValue{typ: "portion", expr: "$x", decl: "portion $x", vars: map[string]string{"x": r.Pick([]string{"0%", "100%", "12.5%", "1/3", "0/9", "7/7", "33.333%", "2 / 6"})}}
			default:
				v = rtValue{typ: "monetary", expr: "[USD 1] + $x", decl: "monetary $x", vars: map[string]string{"x": "USD " + big1.String()}}
			}
			c.roundTripCase(v)
			c.count("type:" + v.typ)
		}
	}
}
