package main

import (
	"fmt"
	"math/big"
	"strings"

	"github.com/formancehq/numscript/internal/analysis"
	"github.com/formancehq/numscript/internal/parser"
)

func coqRat(r *big.Rat) string {
	return "(" + coqZ(r.Num()) + " # " + r.Denom().String() + ")"
}

func coqDiagKind(k analysis.DiagnosticKind) string {
	switch k := k.(type) {
	case *analysis.Parsing:
		return "(DParsing " + coqStr(k.Description) + ")"
	case *analysis.InvalidType:
		return "(DInvalidType " + coqStr(k.Name) + ")"
	case *analysis.DuplicateVariable:
		return "(DDuplicateVariable " + coqStr(k.Name) + ")"
	case *analysis.UnboundVariable:
		return "(DUnboundVariable " + coqStr(k.Name) + ")"
	case *analysis.UnusedVar:
		return "(DUnusedVar " + coqStr(k.Name) + ")"
	case *analysis.TypeMismatch:
		return "(DTypeMismatch " + coqStr(k.Expected) + " " + coqStr(k.Got) + ")"
	case *analysis.RemainingIsNotLast:
		return "DRemainingIsNotLast"
	case *analysis.BadAllotmentSum:
		return "(DBadAllotmentSum " + coqRat(&k.Sum) + ")"
	case *analysis.FixedPortionVariable:
		return "(DFixedPortionVariable " + coqRat(&k.Value) + ")"
	case *analysis.RedundantRemaining:
		return "DRedundantRemaining"
	case *analysis.UnknownFunction:
		return "(DUnknownFunction " + coqStr(k.Name) + ")"
	case *analysis.BadArity:
		return fmt.Sprintf("(DBadArity %d %d)", k.Expected, k.Actual)
	case *analysis.InvalidWorldOverdraft:
		return "DInvalidWorldOverdraft"
	case *analysis.NoAllotmentInSendAll:
		return "DNoAllotmentInSendAll"
	case *analysis.InvalidUnboundedAccount:
		return "DInvalidUnboundedAccount"
	case *analysis.EmptiedAccount:
		return "(DEmptiedAccount " + coqStr(k.Name) + ")"
	case *analysis.UnboundedAccountIsNotLast:
		return "DUnboundedAccountIsNotLast"
	case *analysis.DivByZero:
		return "DDivByZero"
	}
	// a kind the model does not know: rendered as a parsing diagnostic with the Go type name, so
	// that the comparison fails visibly
	return "(DParsing " + coqStr(fmt.Sprintf("UNKNOWN KIND %T", k)) + ")"
}

func coqSeverity(s analysis.Severity) string {
	switch s {
	case analysis.ErrorSeverity:
		return "OSevError"
	case analysis.WarningSeverity:
		return "OSevWarning"
	}
	return fmt.Sprintf("(OSevOther %d)", s)
}

type checkObs struct {
	Panic   string
	Diags   []analysis.Diagnostic
	Symbols []analysis.DocumentSymbol
	Errors  int
}

func runCheck(text string) (o checkObs, res analysis.CheckResult) {
	defer func() {
		if r := recover(); r != nil {
			o = checkObs{Panic: fmt.Sprint(r)}
		}
	}()
	res = analysis.CheckSource(text)
	o.Diags = res.Diagnostics
	for _, d := range res.Diagnostics {
		// a diagnostic is shown to the user: its text and severity are part of the analysis (a panic here kills the server)
		_ = d.Kind.Message()
		_ = d.Kind.Severity()
	}
	o.Symbols = res.GetSymbols()
	o.Errors = res.GetErrorsCount()
	return
}

func coqCheckObs(o checkObs) string {
	if o.Panic != "" {
		return "(CObsPanic " + coqStr(o.Panic) + ")"
	}
	var ds, ss []string
	for _, d := range o.Diags {
		ds = append(ds, fmt.Sprintf("(mkdiag %s %s, %s)", coqRange(d.Range), coqDiagKind(d.Kind), coqSeverity(d.Kind.Severity())))
	}
	for _, s := range o.Symbols {
		ss = append(ss, fmt.Sprintf("(mksymbol %s %s %s)", coqStr(s.Name), coqStr(s.Detail), coqRange(s.Range)))
	}
	return fmt.Sprintf("(CObsOk %s %s %d%%nat)", coqList(ds), coqList(ss), o.Errors)
}

func shortCheckObs(o checkObs) string {
	if o.Panic != "" {
		return "panic: " + o.Panic
	}
	var xs []string
	for _, d := range o.Diags {
		xs = append(xs, fmt.Sprintf("%s@%d:%d-%d:%d", strings.TrimPrefix(fmt.Sprintf("%T", d.Kind), "*analysis."), d.Range.Start.Line, d.Range.Start.Character, d.Range.End.Line, d.Range.End.Character))
	}
	return strings.Join(xs, "; ")
}

func coqParseDiags(pr parser.ParseResult) string {
	var xs []string
	for _, e := range pr.Errors {
		xs = append(xs, fmt.Sprintf("(mkdiag %s (DParsing %s))", coqRange(e.Range), coqStr(e.Msg)))
	}
	return coqList(xs)
}

// collectVarUses lists every variable-use expression of the generator's tree.
func collectVarUses(p *GProgram) []*GExpr {
	var out []*GExpr
	var ex func(e *GExpr)
	ex = func(e *GExpr) {
		if e == nil {
			return
		}
		if e.Kind == XVar {
			out = append(out, e)
		}
		ex(e.A)
		ex(e.B)
	}
	var src func(s *GSource)
	src = func(s *GSource) {
		if s == nil {
			return
		}
		ex(s.E)
		ex(s.Bounded)
		ex(s.Cap)
		for _, x := range s.Subs {
			src(x)
		}
		for _, it := range s.Items {
			ex(it.Allot.E)
			src(it.From)
		}
		src(s.From)
	}
	var dst func(d *GDest)
	var kod func(k *GKod)
	kod = func(k *GKod) {
		if k != nil && k.To != nil {
			dst(k.To)
		}
	}
	dst = func(d *GDest) {
		if d == nil {
			return
		}
		ex(d.E)
		for _, c := range d.Clauses {
			ex(c.Cap)
			kod(c.To)
		}
		kod(d.Remaining)
		for _, it := range d.Items {
			ex(it.Allot.E)
			kod(it.To)
		}
	}
	for _, v := range p.Vars {
		if v.Origin != nil {
			for _, a := range v.Origin.Args {
				ex(a)
			}
		}
	}
	for _, s := range p.Stmts {
		if s.Sent != nil {
			ex(s.Sent.E)
		}
		src(s.Src)
		dst(s.Dst)
		ex(s.Acct)
		if s.Call != nil {
			for _, a := range s.Call.Args {
				ex(a)
			}
		}
	}
	return out
}

// nameEdits applies declaration/use deletions, duplications and renamings (C16's quantifier).
// selfOrigin makes a declaration refer to itself (or to a later declaration) in its own origin:
// the interpreter evaluates the origin before the variable exists.
func selfOrigin(prog *GProgram, r *Rand) bool {
	if len(prog.Vars) == 0 {
		return false
	}
	i := r.Intn(len(prog.Vars))
	d := prog.Vars[i]
	target := d.Name
	if i+1 < len(prog.Vars) && r.Chance(1, 3) {
		target = prog.Vars[i+1+r.Intn(len(prog.Vars)-i-1)].Name
	}
	ref := &GExpr{Kind: XVar, S: target}
	switch {
	case d.Origin != nil && len(d.Origin.Args) > 0:
		d.Origin.Args[r.Intn(len(d.Origin.Args))] = ref
	case d.Type == "monetary" && r.Chance(1, 2):
		d.Origin = &GFnCall{Name: "balance", Args: []*GExpr{ref, {Kind: XAsset, S: "USD"}}}
	default:
		d.Origin = &GFnCall{Name: "meta", Args: []*GExpr{ref, {Kind: XString, S: "k"}}}
	}
	return true
}

func nameEdits(g *Gen, prog *GProgram, r *Rand) string {
	switch r.Intn(7) {
	case 6:
		if selfOrigin(prog, r) {
			return "self-origin"
		}
	case 0:
		return "none"
	case 1: // delete a declaration
		if len(prog.Vars) > 0 {
			i := r.Intn(len(prog.Vars))
			prog.Vars = append(prog.Vars[:i:i], prog.Vars[i+1:]...)
			return "delete-declaration"
		}
	case 2: // duplicate a declaration
		if len(prog.Vars) > 0 {
			i := r.Intn(len(prog.Vars))
			d := *prog.Vars[i]
			d.Origin = nil
			if r.Chance(1, 2) {
				d.Type = r.Pick(typeNames)
			}
			j := r.Intn(len(prog.Vars) + 1)
			prog.Vars = append(prog.Vars[:j:j], append([]*GVarDecl{&d}, prog.Vars[j:]...)...)
			return "duplicate-declaration"
		}
	case 3: // rename a use to an undeclared name
		us := collectVarUses(prog)
		if len(us) > 0 {
			us[r.Intn(len(us))].S = "undeclared_" + fmt.Sprint(r.Intn(3))
			return "rename-use"
		}
	case 4: // rename a use to another declared variable (possibly of another type)
		us := collectVarUses(prog)
		if len(us) > 0 && len(prog.Vars) > 0 {
			us[r.Intn(len(us))].S = prog.Vars[r.Intn(len(prog.Vars))].Name
			return "retarget-use"
		}
	case 5: // declare a variable that is never used, or move a declaration to the end
		if len(prog.Vars) > 0 && r.Chance(1, 2) {
			i := r.Intn(len(prog.Vars))
			d := prog.Vars[i]
			prog.Vars = append(append(prog.Vars[:i:i], prog.Vars[i+1:]...), d)
			return "move-declaration-last"
		}
		prog.Vars = append(prog.Vars, &GVarDecl{Type: r.Pick(typeNames), Name: "unused_" + fmt.Sprint(r.Intn(3))})
		return "add-unused-declaration"
	}
	return "none"
}

func (c *Ctx) checkCase(text string, kind string, extra map[string]any) *CaseInfo {
	o, _ := runCheck(text)
	pr := parseSafe(text)
	ci := &CaseInfo{Kind: kind, Text: text, FailAt: -1, Extra: extra}
	ci.Class = "ok"
	if o.Panic != "" {
		ci.Class = "panic"
	} else if o.Errors > 0 {
		ci.Class = "errors"
	} else if len(o.Diags) > 0 {
		ci.Class = "warnings"
	}
	ci.Observed = shortCheckObs(o)
	tree := dumpProgram(pr.Value)
	if t, ok := extra["expected_tree"].(string); ok && t != "" && len(pr.Errors) == 0 {
		tree = t // the generator's own tree, with the printer's ranges: what the text means
	}
	ci.Coq = fmt.Sprintf("(mk_ccase %s %s %s)", tree, coqParseDiags(pr), coqCheckObs(o))
	if k := knownSignature(text); k != "" {
		ci.Known = k
	}
	c.add(ci)
	return ci
}

// typeEdits: the type-breaking edits of C17's quantifier, applied to the generator's tree.
func typeEdits(g *Gen, prog *GProgram, r *Rand) string {
	switch r.Intn(10) {
	case 9: // + or - on operands that are neither numbers nor monetaries, in a position that accepts any type
		mk := func() *GExpr {
			switch r.Intn(4) {
			case 0:
				return &GExpr{Kind: XString, S: "a"}
			case 1:
				return acct(r.Pick(accountPool))
			case 2:
				return &GExpr{Kind: XAsset, S: "USD"}
			}
			return g.ratio(bi(1), bi(2))
		}
		bad := &GExpr{Kind: XInfix, Op: r.Pick([]string{"+", "-"}), A: mk(), B: mk()}
		j := r.Intn(len(prog.Stmts) + 1)
		call := &GFnCall{Name: "set_tx_meta", Args: []*GExpr{{Kind: XString, S: "k"}, bad}}
		if r.Chance(1, 3) {
			call = &GFnCall{Name: "set_account_meta", Args: []*GExpr{acct("a"), {Kind: XString, S: "k"}, bad}}
		}
		prog.Stmts = append(prog.Stmts[:j:j], append([]*GStmt{{Kind: StCall, Call: call}}, prog.Stmts[j:]...)...)
		return "infix-of-non-numbers"
	case 7:
		if selfOrigin(prog, r) {
			return "self-origin"
		}
	case 8: // a well-formed call in the wrong context: origin function as a statement, statement function as an origin
		if r.Chance(1, 2) || len(prog.Vars) == 0 {
			var call *GFnCall
			switch r.Intn(3) {
			case 0:
				call = &GFnCall{Name: "balance", Args: []*GExpr{acct(r.Pick(accountPool)), {Kind: XAsset, S: "USD"}}}
			case 1:
				call = &GFnCall{Name: "meta", Args: []*GExpr{acct(r.Pick(accountPool)), {Kind: XString, S: "k"}}}
			default:
				call = &GFnCall{Name: "overdraft", Args: []*GExpr{acct(r.Pick(accountPool)), {Kind: XAsset, S: "USD"}}}
			}
			j := r.Intn(len(prog.Stmts) + 1)
			prog.Stmts = append(prog.Stmts[:j:j], append([]*GStmt{{Kind: StCall, Call: call}}, prog.Stmts[j:]...)...)
			return "origin-fn-as-statement"
		}
		v := prog.Vars[r.Intn(len(prog.Vars))]
		if r.Chance(1, 2) {
			v.Origin = &GFnCall{Name: "set_tx_meta", Args: []*GExpr{{Kind: XString, S: "k"}, {Kind: XNumber, N: bi(1)}}}
		} else {
			v.Origin = &GFnCall{Name: "set_account_meta", Args: []*GExpr{acct("a"), {Kind: XString, S: "k"}, {Kind: XNumber, N: bi(1)}}}
		}
		return "statement-fn-as-origin"
	case 0:
		if r.Chance(1, 2) {
			if len(prog.Vars) > 0 && r.Chance(1, 2) {
				// a second declaration of a name, with another type (no origin): whichever of the two the run binds, the
				// checker must have said something
				i := r.Intn(len(prog.Vars))
				d := *prog.Vars[i]
				d.Origin = nil
				for d.Type == prog.Vars[i].Type {
					d.Type = r.Pick(typeNames)
				}
				j := i + 1 + r.Intn(len(prog.Vars)-i)
				if r.Chance(1, 4) {
					j = r.Intn(i + 1)
				}
				prog.Vars = append(prog.Vars[:j:j], append([]*GVarDecl{&d}, prog.Vars[j:]...)...)
				if _, ok := g.rawVars[d.Name]; !ok {
					g.rawVars[d.Name] = map[string]string{"number": "7", "portion": "1/2", "monetary": "USD 5", "string": "s", "account": "a", "asset": "USD"}[d.Type]
				}
				return "redeclare-other-type"
			}
			if len(prog.Vars) > 0 && r.Chance(1, 2) {
				// a variable first used where any type fits, then - its second or third use - where its type does not
				v := prog.Vars[r.Intn(len(prog.Vars))]
				use := func() *GExpr { return &GExpr{Kind: XVar, S: v.Name} }
				first := &GStmt{Kind: StCall, Call: &GFnCall{Name: "set_tx_meta", Args: []*GExpr{{Kind: XString, S: "first"}, use()}}}
				var bad *GStmt
				switch {
				case v.Type != "account" && r.Chance(1, 2):
					bad = &GStmt{Kind: StSend, Sent: &GSent{E: lit("USD", bi(1))}, Src: srcAcct("world"), Dst: &GDest{Kind: DstAccount, E: use()}}
				case v.Type != "monetary":
					bad = &GStmt{Kind: StSend, Sent: &GSent{E: use()}, Src: srcAcct("world"), Dst: dstAcct("a")}
				default:
					bad = &GStmt{Kind: StCall, Call: &GFnCall{Name: "set_tx_meta", Args: []*GExpr{use(), {Kind: XNumber, N: bi(1)}}}}
				}
				prog.Stmts = append(append([]*GStmt{first}, prog.Stmts...), bad)
				return "later-use-mistyped"
			}
			return "none"
		}
		// one argument of a built-in call (often the LAST one) gets a value of another type: a literal, or a
		// variable declared with another type
		var calls []*GFnCall
		for _, v := range prog.Vars {
			if v.Origin != nil {
				calls = append(calls, v.Origin)
			}
		}
		for _, s := range prog.Stmts {
			if s.Kind == StCall {
				calls = append(calls, s.Call)
			}
		}
		if len(calls) == 0 || r.Chance(1, 3) {
			// no call to edit: add an origin whose last argument is ill-typed
			wrong := []*GExpr{{Kind: XString, S: "USD"}, {Kind: XNumber, N: bi(3)}, acct("a")}[r.Intn(3)]
			name := g.freshName()
			fn := r.Pick([]string{"balance", "overdraft"})
			if fn == "overdraft" {
				g.flag = true
			}
			prog.Vars = append(prog.Vars, &GVarDecl{Type: "monetary", Name: name, Origin: &GFnCall{Name: fn, Args: []*GExpr{acct(r.Pick(accountPool)), wrong}}})
			prog.Stmts = append(prog.Stmts, &GStmt{Kind: StCall, Call: &GFnCall{Name: "set_tx_meta", Args: []*GExpr{{Kind: XString, S: "seen"}, {Kind: XVar, S: name}}}})
			return "mistype-call-arg"
		}
		call := calls[r.Intn(len(calls))]
		if len(call.Args) == 0 {
			return "none"
		}
		i := len(call.Args) - 1
		if r.Chance(1, 3) {
			i = r.Intn(len(call.Args))
		}
		if call.Name == "set_tx_meta" || call.Name == "set_account_meta" {
			if i == len(call.Args)-1 {
				i = len(call.Args) - 2 // the value accepts any type: aim at the key
			}
		}
		// a variable of a type that fits no parameter position of that call
		wrongType := r.Pick([]string{"number", "portion", "monetary"})
		name := g.freshName()
		prog.Vars = append([]*GVarDecl{{Type: wrongType, Name: name}}, prog.Vars...)
		g.rawVars[name] = map[string]string{"number": "7", "portion": "1/2", "monetary": "USD 5"}[wrongType]
		if r.Chance(1, 2) {
			call.Args[i] = &GExpr{Kind: XVar, S: name}
		} else {
			call.Args[i] = []*GExpr{{Kind: XNumber, N: bi(3)}, g.ratio(bi(1), bi(2)), lit("USD", bi(1))}[r.Intn(3)]
			prog.Stmts = append(prog.Stmts, &GStmt{Kind: StCall, Call: &GFnCall{Name: "set_tx_meta", Args: []*GExpr{{Kind: XString, S: "u"}, {Kind: XVar, S: name}}}})
		}
		return "mistype-call-arg"
	case 1: // mis-declare a variable: another type, or a type that does not exist (often on a variable with an origin)
		if len(prog.Vars) > 0 {
			v := prog.Vars[r.Intn(len(prog.Vars))]
			if r.Chance(1, 2) {
				for _, w := range prog.Vars {
					if w.Origin != nil {
						v = w
						break
					}
				}
			}
			if r.Chance(1, 2) {
				v.Type = r.Pick([]string{"monetery", "int", "acount", "amount", "str"})
				if v.Origin == nil && r.Chance(1, 2) {
					v.Origin = &GFnCall{Name: "meta", Args: []*GExpr{acct(r.Pick(accountPool)), {Kind: XString, S: "k"}}}
				}
				return "unknown-type"
			}
			v.Type = r.Pick(typeNames)
			return "redeclare-type"
		}
	case 2: // undeclare a variable
		if len(prog.Vars) > 0 {
			i := r.Intn(len(prog.Vars))
			prog.Vars = append(prog.Vars[:i:i], prog.Vars[i+1:]...)
			return "delete-declaration"
		}
	case 3: // wrong arity / unknown or misplaced function
		for _, s := range prog.Stmts {
			if s.Kind == StCall {
				switch r.Intn(3) {
				case 0:
					if len(s.Call.Args) > 0 {
						s.Call.Args = s.Call.Args[:len(s.Call.Args)-1]
					}
				case 1:
					s.Call.Args = append(s.Call.Args, g.exprOf("any", 1))
				default:
					s.Call.Name = r.Pick([]string{"balance", "meta", "set_meta", "overdraft"})
				}
				return "break-call"
			}
		}
		for _, v := range prog.Vars {
			if v.Origin != nil {
				switch r.Intn(3) {
				case 0:
					v.Origin.Args = v.Origin.Args[:len(v.Origin.Args)-1]
				case 1:
					v.Origin.Args = append(v.Origin.Args, g.exprOf("any", 0))
				default:
					v.Origin.Name = r.Pick([]string{"set_tx_meta", "balances", "set_account_meta"})
				}
				return "break-origin"
			}
		}
	case 4: // a literal of another type somewhere
		us := collectVarUses(prog)
		if len(us) > 0 {
			e := us[r.Intn(len(us))]
			*e = *g.exprOf("any", 0)
			return "replace-use-by-literal"
		}
	case 5: // operands of + / - of different types
		for _, s := range prog.Stmts {
			if s.Kind == StSend && !s.Sent.All {
				s.Sent.E = &GExpr{Kind: XInfix, Op: r.Pick([]string{"+", "-"}), A: s.Sent.E, B: g.exprOf("any", 0)}
				return "infix-mismatch"
			}
		}
	case 6: // send-all over an allotment or an unbounded source
		for _, s := range prog.Stmts {
			if s.Kind == StSend {
				s.Sent = &GSent{All: true, E: &GExpr{Kind: XAsset, S: "USD"}}
				switch r.Intn(4) {
				case 0:
					// the forms a send-all cannot drain: @world, an unbounded overdraft - also behind a bounded
					// overdraft written on @world, a cap, or as one member of a list
					s.Src = &GSource{Kind: SrcOverdraft, E: acct("world"), Bounded: lit("USD", bi(int64(r.Intn(50))))}
				case 1:
					s.Src = &GSource{Kind: SrcInorder, Subs: []*GSource{srcAcct("a"), {Kind: SrcOverdraft, E: acct(r.Pick([]string{"world", "b"}))}}}
				case 2:
					// caps nested in caps (each level has its own say on what is bounded), then something unbounded
					inner := &GSource{Kind: SrcCapped, Cap: lit("USD", bi(int64(1+r.Intn(9)))), From: srcAcct("a")}
					if r.Chance(1, 2) {
						inner = &GSource{Kind: SrcCapped, Cap: lit("USD", bi(int64(1+r.Intn(9)))), From: &GSource{Kind: SrcAllot, Items: []*GSrcItem{
							{Allot: &GAllot{Kind: AlRatio, E: g.ratio(bi(1), bi(2))}, From: srcAcct("a")}, {Allot: &GAllot{Kind: AlRemaining}, From: srcAcct("b")}}}}
					}
					outer := &GSource{Kind: SrcCapped, Cap: lit("USD", bi(int64(10+r.Intn(40)))), From: &GSource{Kind: SrcInorder, Subs: []*GSource{inner, srcAcct("c")}}}
					last := &GSource{Kind: SrcOverdraft, E: acct("b")}
					if r.Chance(1, 2) {
						last = srcAcct("world")
					}
					s.Src = &GSource{Kind: SrcInorder, Subs: []*GSource{outer, last}}
				}
				return "make-send-all"
			}
		}
	}
	return "none"
}

func init() {
	registry["C17"] = func(c *Ctx) {
		c.group("scripts", "c17case", "judge_C17")
		root := NewRand(c.seed)
		n := c.size(400, 20000)
		if c.replay != nil {
			n = 1
		}
		for i := 0; i < n; i++ {
			r := root.Fork()
			var sc Scenario
			edit := "replay"
			if c.replay != nil {
				sc = scenarioFromInfo(c.replay)
			} else {
				cfg := baseCfg()
				cfg.IllTyped = 0
				cfg.BadAllot = 20
				cfg.WorldSub = i%3 == 1
				cfg.MaxStmts = 3
				cfg.CallWeight = 40
				cfg.NoWorldVars = true
				cfg.Origins = i%3 == 0
				cfg.SendAll = 250
				if i%4 == 3 {
					cfg.IllTyped = 25
				}
				g := NewGen(r, cfg)
				prog := g.Program()
				edit = typeEdits(g, prog, r)
				// variable values of the DECLARED types
				for _, v := range prog.Vars {
					if v.Origin == nil {
						if _, ok := g.rawVars[v.Name]; ok || true {
							g.asset = "USD"
							known := false
							for _, t := range typeNames {
								if t == v.Type {
									known = true
								}
							}
							if known {
								g.rawVars[v.Name] = g.rawValue(v.Type)
							}
						}
					}
				}
				sc = scenarioFromGen(g, prog, 0, r)
				sc.Kind = skExact
			}
			o, _ := runCheck(sc.Text)
			pr := parseSafe(sc.Text)
			ro, log := sc.run()
			term, _ := sc.coq(ro, log)
			ci := sc.info("c17case")
			ci.extra(map[string]any{"edit": edit, "check": shortCheckObs(o)})
			ci.Class = ro.Class
			ci.Observed = shortObserved(ro)
			ci.Coq = fmt.Sprintf("(mk_c17case (mk_ccase %s %s %s) %s)", sc.treeOf(pr), coqParseDiags(pr), coqCheckObs(o), term)
			if o.Panic == "" && o.Errors == 0 {
				c.count("check:no-error")
			}
			if o.Panic == "" && len(o.Diags) == 0 {
				c.count("check:clean")
			}
			c.count("edit:" + edit)
			c.add(ci)
		}
	}
	registry["C16"] = func(c *Ctx) {
		c.group("scripts", "ccase", "judge_C16")
		if c.replay != nil {
			c.checkCase(c.replay.Text, "ccase", c.replay.Extra)
			return
		}
		c.checkCase(kitchenSink, "ccase", map[string]any{"edit": "corpus"})
		root := NewRand(c.seed)
		n := c.size(400, 20000)
		for i := 0; i < n; i++ {
			r := root.Fork()
			cfg := baseCfg()
			cfg.IllTyped = 0
			cfg.BadAllot = 0
			cfg.MaxStmts = 4
			cfg.CallWeight = 30
			cfg.WorldSub = i%3 == 1
			if i%5 == 4 {
				cfg.IllTyped = 15
				cfg.BadAllot = 60
			}
			g := NewGen(r, cfg)
			prog := g.Program()
			edit := "none"
			if i%2 == 1 {
				edit = nameEdits(g, prog, r)
			}
			if i%20 == 7 || i%20 == 12 {
				// a call with two or three arguments too many, each of them a variable - declared here and used nowhere
				// else, or never declared: surplus arguments are expressions of the script like any other
				name := []string{"set_tx_meta", "set_account_meta", "balance", "nope"}[(i/20)%4]
				call := &GFnCall{Name: name}
				switch name {
				case "set_tx_meta":
					call.Args = []*GExpr{{Kind: XString, S: "k"}, {Kind: XNumber, N: bi(1)}}
				case "set_account_meta":
					call.Args = []*GExpr{acct("a"), {Kind: XString, S: "k"}, {Kind: XNumber, N: bi(1)}}
				case "balance":
					call.Args = []*GExpr{acct("a"), {Kind: XAsset, S: "USD"}}
				}
				for k := 0; k < 2+i%2; k++ {
					v := fmt.Sprintf("extra_%d", k)
					if (i/40+k)%2 == 0 {
						prog.Vars = append(prog.Vars, &GVarDecl{Type: typeNames[(i+k)%len(typeNames)], Name: v})
					}
					call.Args = append(call.Args, &GExpr{Kind: XVar, S: v})
				}
				if name == "balance" {
					prog.Vars = append(prog.Vars, &GVarDecl{Type: "monetary", Name: "surplus_origin", Origin: call})
					prog.Stmts = append(prog.Stmts, &GStmt{Kind: StCall, Call: &GFnCall{Name: "set_tx_meta", Args: []*GExpr{{Kind: XString, S: "s"}, {Kind: XVar, S: "surplus_origin"}}}})
				} else {
					prog.Stmts = append(prog.Stmts, &GStmt{Kind: StCall, Call: call})
				}
				edit += "+surplus-arguments"
			}
			pp := &Printer{}
			pp.program(prog)
			text, pos := Render(pp.Toks, 0, r)
			c.checkCase(text, "ccase", map[string]any{"edit": edit, "expected_tree": expectedOrNone(pos, prog)})
			c.count("edit:" + edit)
		}
	}
}
