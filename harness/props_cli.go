package main

import (
	"bytes"
	"encoding/json"
	"fmt"
	"math/big"
	"os"
	"os/exec"
	"path/filepath"
	"regexp"
	"sort"
	"strings"

	"github.com/formancehq/numscript"
)

type cliResult struct {
	exit           int
	stdout, stderr string
}

func runCli(bin string, stdin string, args ...string) cliResult {
	cmd := exec.Command(bin, args...)
	var so, se bytes.Buffer
	cmd.Stdout, cmd.Stderr = &so, &se
	if stdin != "" {
		cmd.Stdin = strings.NewReader(stdin)
	}
	err := cmd.Run()
	code := 0
	if ee, ok := err.(*exec.ExitError); ok {
		code = ee.ExitCode()
	} else if err != nil {
		code = -1
	}
	return cliResult{code, so.String(), se.String()}
}

// balancesJSON renders balances with amounts as JSON numbers (any size)
func balancesJSON(b numscript.Balances) string {
	var as []string
	for _, a := range sortedKeys(b) {
		var cs []string
		for _, c := range sortedKeys(b[a]) {
			k, _ := json.Marshal(c)
			cs = append(cs, string(k)+":"+b[a][c].String())
		}
		k, _ := json.Marshal(a)
		as = append(as, string(k)+":{"+strings.Join(cs, ",")+"}")
	}
	return "{" + strings.Join(as, ",") + "}"
}

func coqCliObs(r cliResult, lib Outcome) string {
	if r.exit == 0 {
		var out struct {
			Postings []struct {
				Source      string          `json:"source"`
				Destination string          `json:"destination"`
				Amount      json.RawMessage `json:"amount"`
				Asset       string          `json:"asset"`
			} `json:"postings"`
			TxMeta       map[string]string            `json:"txMeta"`
			AccountsMeta map[string]map[string]string `json:"accountsMeta"`
		}
		if err := json.Unmarshal([]byte(r.stdout), &out); err != nil {
			return fmt.Sprintf("(CliOther 0 %s)", coqStr("stdout is not the expected JSON: "+err.Error()))
		}
		var ps []string
		for _, p := range out.Postings {
			n, ok := new(big.Int).SetString(strings.Trim(string(p.Amount), "\""), 10)
			if !ok {
				return fmt.Sprintf("(CliOther 0 %s)", coqStr("amount is not an integer: "+string(p.Amount)))
			}
			ps = append(ps, fmt.Sprintf("(mkposting %s %s %s %s)", coqStr(p.Source), coqStr(p.Destination), coqZ(n), coqStr(p.Asset)))
		}
		var tm []string
		for _, k := range sortedKeys(out.TxMeta) {
			tm = append(tm, fmt.Sprintf("(%s, %s)", coqStr(k), coqStr(out.TxMeta[k])))
		}
		am := numscript.AccountsMetadata{}
		for a, m := range out.AccountsMeta {
			am[a] = m
		}
		return fmt.Sprintf("(CliOk %s %s %s)", coqList(ps), coqList(tm), coqMeta(am))
	}
	starts := lib.Class != "ok" && lib.Class != "panic" && strings.HasPrefix(r.stderr, lib.Msg)
	return fmt.Sprintf("(CliErr %d %s)", r.exit, coqBool(starts))
}

var posLine = regexp.MustCompile(`(?m)^.*:(\d+):(\d+) - `)

func init() {
	registry["C20"] = func(c *Ctx) {
		c.group("invocations", "c20case", "judge_C20")
		c.shard(30)
		bin := os.Getenv("VERIF_CLI")
		if bin == "" {
			fmt.Fprintln(os.Stderr, "VERIF_CLI not set")
			os.Exit(2)
		}
		tmp := filepath.Join(c.outDir, "tmp")
		os.MkdirAll(tmp, 0o755)
		defer os.RemoveAll(tmp)
		root := NewRand(c.seed)
		n := c.size(60, 1500)
		if c.replay != nil {
			n = 1
		}
		for i := 0; i < n; i++ {
			r := root.Fork()
			var sc Scenario
			if c.replay != nil {
				sc = scenarioFromInfo(c.replay)
			} else {
				cfg := baseCfg()
				cfg.IllTyped = 5
				cfg.BadAllot = 20
				cfg.MaxStmts = 3
				cfg.CallWeight = 40
				cfg.Origins = i%3 == 0
				if i%4 == 1 {
					cfg.IllTyped = 40 // erroneous scripts
				}
				g := NewGen(r, cfg)
				var prog *GProgram
				if i%7 == 3 {
					prog = g.overdraftOriginProgram() // needs --experimental-overdraft-function to reach the interpreter
				} else if i%9 == 4 {
					// texts that a printf would mangle, in both kinds of metadata
					g.asset = "USD"
					v := r.Pick([]string{"100%", "%d of %s", "2.5%!", "%v%%", "50% off"})
					g.prog.Vars = append(g.prog.Vars, &GVarDecl{Type: "string", Name: "note"})
					g.rawVars["note"] = v
					g.prog.Stmts = append(g.prog.Stmts,
						&GStmt{Kind: StSend, Sent: &GSent{E: lit("USD", bi(int64(1+r.Intn(20))))}, Src: srcAcct("world"), Dst: dstAcct("a")},
						&GStmt{Kind: StCall, Call: &GFnCall{Name: "set_tx_meta", Args: []*GExpr{{Kind: XString, S: "note"}, {Kind: XVar, S: "note"}}}},
						&GStmt{Kind: StCall, Call: &GFnCall{Name: "set_account_meta", Args: []*GExpr{acct("a"), {Kind: XString, S: "rate"}, {Kind: XString, S: r.Pick([]string{"2.5%", "%s", "100%"})}}}})
					prog = g.prog
				} else {
					prog = g.Program()
				}
				if i%4 == 2 && i%7 != 3 {
					nameEdits(g, prog, r) // warning-only / unbound scripts
				}
				sc = scenarioFromGen(g, prog, 0, r)
				if i%5 == 0 {
					sc.Text = strings.ReplaceAll(sc.Text, " ", "  ") // layout variation: positions move
				}
				// the file as a user saves it: blank lines / a comment before the script, a final line
				// comment with or without its line feed, trailing blanks - the CLI must analyse these very bytes
				switch i % 6 {
				case 1:
					sc.Text = "\n\n" + sc.Text
				case 2:
					sc.Text = "  \n// header\n" + sc.Text + "\n// done"
				case 3:
					sc.Text = sc.Text + "\n// done\n"
				case 4:
					sc.Text = "\t" + sc.Text + "  \n\n"
				}
				if i%30 == 17 {
					// nothing to run: a file of zero bytes, of blanks, of comments only - the library returns an empty result, so must the CLI
					sc.Text = []string{"", " \n\t\n", "// nothing here\n", "/* nothing */"}[(i/30)%4]
					sc.Vars = map[string]string{}
				}
				sc.Expected = "" // the text was edited after printing (a final comment without line feed is not even valid): judge the tree parsed from these very bytes
			}
			sc.Kind = skStatic
			// ---- numscript check
			script := filepath.Join(tmp, "s.num")
			os.WriteFile(script, []byte(sc.Text), 0o644)
			chk := runCli(bin, "", "check", script)
			var printed []string
			for _, m := range posLine.FindAllStringSubmatch(chk.stdout, -1) {
				printed = append(printed, fmt.Sprintf("(%s, %s)", m[1], m[2]))
			}
			lo, _ := runCheck(sc.Text)
			pr := parseSafe(sc.Text)
			ccase := fmt.Sprintf("(mk_ccase %s %s %s)", dumpProgram(pr.Value), coqParseDiags(pr), coqCheckObs(lo))
			// ---- library run (bundled static store) and the three channels
			ro, log := sc.run()
			icase, _ := sc.coq(ro, log)
			varsJ, _ := json.Marshal(sc.Vars)
			metaJ, _ := json.Marshal(sc.Meta)
			balJ := balancesJSON(sc.Bal)
			scriptJ, _ := json.Marshal(sc.Text)
			doc := fmt.Sprintf(`{"script":%s,"variables":%s,"metadata":%s,"balances":%s}`, scriptJ, varsJ, metaJ, balJ)
			flagArgs := []string{"--output-format", "json"}
			if sc.Flag {
				flagArgs = append(flagArgs, "--experimental-overdraft-function")
			}
			var chans []string
			if len(pr.Errors) == 0 {
				raw := runCli(bin, "", append([]string{"run", "--raw", doc}, flagArgs...)...)
				chans = append(chans, fmt.Sprintf("(%s, %s)", coqStr("raw"), coqCliObs(raw, ro)))
				stdin := runCli(bin, doc, append([]string{"run", "--stdin"}, flagArgs...)...)
				chans = append(chans, fmt.Sprintf("(%s, %s)", coqStr("stdin"), coqCliObs(stdin, ro)))
				vf, mf, bf := filepath.Join(tmp, "v.json"), filepath.Join(tmp, "m.json"), filepath.Join(tmp, "b.json")
				os.WriteFile(vf, varsJ, 0o644)
				os.WriteFile(mf, metaJ, 0o644)
				os.WriteFile(bf, []byte(balJ), 0o644)
				files := runCli(bin, "", append([]string{"run", script, "-v", vf, "-m", mf, "-b", bf}, flagArgs...)...)
				chans = append(chans, fmt.Sprintf("(%s, %s)", coqStr("files"), coqCliObs(files, ro)))
				// mixed channels: the script through one channel, variables / balances / metadata through another
				scriptOnly := fmt.Sprintf(`{"script":%s}`, scriptJ)
				rawFiles := runCli(bin, "", append([]string{"run", "--raw", scriptOnly, "-v", vf, "-m", mf, "-b", bf}, flagArgs...)...)
				chans = append(chans, fmt.Sprintf("(%s, %s)", coqStr("raw+files"), coqCliObs(rawFiles, ro)))
				stdinFiles := runCli(bin, scriptOnly, append([]string{"run", "--stdin", "-v", vf, "-m", mf, "-b", bf}, flagArgs...)...)
				chans = append(chans, fmt.Sprintf("(%s, %s)", coqStr("stdin+files"), coqCliObs(stdinFiles, ro)))
				rest := fmt.Sprintf(`{"variables":%s,"metadata":%s,"balances":%s}`, varsJ, metaJ, balJ)
				fileRaw := runCli(bin, "", append([]string{"run", script, "--raw", rest}, flagArgs...)...)
				chans = append(chans, fmt.Sprintf("(%s, %s)", coqStr("file+raw"), coqCliObs(fileRaw, ro)))
			}
			ci := sc.info("c20case")
			ci.Class = ro.Class
			sort.Strings(printed)
			ci.Observed = fmt.Sprintf("check exit=%d printed=%d | lib: %s", chk.exit, len(printed), shortObserved(ro))
			ci.extra(map[string]any{"check_stdout": chk.stdout})
			ci.Coq = fmt.Sprintf("(mk_c20case %s %d %s %s %s)", ccase, chk.exit, coqList(printed), icase, coqList(chans))
			c.count(fmt.Sprintf("check_exit:%d", chk.exit))
			c.add(ci)
		}
	}
}
