package main

import (
	"fmt"
	"strings"

	"github.com/formancehq/numscript/internal/analysis"
	"github.com/formancehq/numscript/internal/parser"
)

// mutateTokens applies the edits of C14/C18's quantifier to a token list.
func mutateTokens(toks []string, r *Rand) ([]string, string) {
	t := append([]string{}, toks...)
	if len(t) == 0 {
		return t, "empty"
	}
	switch r.Intn(9) {
	case 0: // prefix
		return t[:r.Intn(len(t)+1)], "prefix"
	case 1: // delete one token
		i := r.Intn(len(t))
		return append(t[:i:i], t[i+1:]...), "delete-token"
	case 2: // duplicate one token
		i := r.Intn(len(t))
		return append(t[:i+1:i+1], t[i:]...), "duplicate-token"
	case 3: // insert a random token
		i := r.Intn(len(t) + 1)
		ins := r.Pick([]string{"(", ")", "{", "}", "[", "]", ",", "=", "*", "-", "+", "vars", "send", "max", "from", "to", "kept", "remaining",
			"allowing", "overdraft", "unbounded", "up", "save", "source", "destination", "$x", "@a", "USD", "1", "-1", "1/2", "50%", "\"s\"", "number", "foo", "%", "/", "é", ":", "$", "@", "\"", "#", "99999999999999999999"})
		return append(t[:i:i], append([]string{ins}, t[i:]...)...), "insert-token"
	case 4: // remove a closing bracket / add an opening one
		for k := 0; k < 5; k++ {
			i := r.Intn(len(t))
			if t[i] == ")" || t[i] == "}" || t[i] == "]" {
				return append(t[:i:i], t[i+1:]...), "unbalance"
			}
		}
		return append([]string{"{"}, t...), "unbalance"
	case 5: // remove a variable name or a type from the declarations
		for i := 0; i+1 < len(t); i++ {
			if strings.HasPrefix(t[i+1], "$") && i > 1 && (t[i-1] == "{" || strings.HasPrefix(t[i-1], "$") || t[i-1] == ")") && r.Chance(1, 2) {
				if r.Chance(1, 2) {
					return append(t[:i:i], t[i+1:]...), "drop-type"
				}
				return append(t[:i+1:i+1], t[i+2:]...), "drop-name"
			}
		}
		return t[:len(t)/2], "prefix"
	case 6: // swap two adjacent tokens
		if len(t) > 1 {
			i := r.Intn(len(t) - 1)
			t[i], t[i+1] = t[i+1], t[i]
		}
		return t, "swap-tokens"
	case 7: // token soup
		n := 1 + r.Intn(12)
		var s []string
		for i := 0; i < n; i++ {
			s = append(s, t[r.Intn(len(t))])
		}
		return s, "soup"
	default: // delete a run of tokens
		i := r.Intn(len(t))
		j := i + 1 + r.Intn(4)
		if j > len(t) {
			j = len(t)
		}
		return append(t[:i:i], t[j:]...), "delete-run"
	}
}

func lineLengths(text string) []int {
	var out []int
	for _, l := range strings.Split(text, "\n") {
		out = append(out, len([]rune(l)))
	}
	return out
}

func (c *Ctx) editorCase(text string, extra map[string]any) {
	o1, res := runCheck(text)
	o2, _ := runCheck(text)
	pr := parseSafe(text)
	lens := lineLengths(text)
	var ls, hs, gs []string
	panics := 0
	for _, n := range lens {
		ls = append(ls, fmt.Sprint(n))
	}
	if o1.Panic == "" {
		for l, n := range lens {
			for ch := 0; ch <= n+1; ch++ {
				pos := parser.Position{Line: l, Character: ch}
				h := func() (s string) {
					defer func() {
						if recover() != nil {
							s = "HOPanic"
						}
					}()
					switch hv := analysis.HoverOn(res.Program, pos).(type) {
					case *analysis.VariableHover:
						return fmt.Sprintf("(HOVar %s %s)", coqRange(hv.Range), coqStr(hv.Node.Name))
					case *analysis.BuiltinFnHover:
						return fmt.Sprintf("(HOFn %s %s)", coqRange(hv.Range), coqStr(hv.Node.Caller.Name))
					}
					return ""
				}()
				if h != "" {
					hs = append(hs, fmt.Sprintf("(%d, %d, %s)", l, ch, h))
					if h == "HOPanic" {
						panics++
					}
				}
				g := func() (s string) {
					defer func() {
						if recover() != nil {
							s = "GOPanic"
						}
					}()
					if d := analysis.GotoDefinition(res.Program, pos, res); d != nil {
						return fmt.Sprintf("(GORange %s)", coqRange(d.Range))
					}
					return ""
				}()
				if g != "" {
					gs = append(gs, fmt.Sprintf("(%d, %d, %s)", l, ch, g))
					if g == "GOPanic" {
						panics++
					}
				}
			}
		}
	}
	ci := &CaseInfo{Kind: "c18case", Text: text, FailAt: -1, Extra: extra}
	ci.Class = "ok"
	if o1.Panic != "" || panics > 0 {
		ci.Class = "panic"
	} else if len(pr.Errors) > 0 {
		ci.Class = "syntax-errors"
	}
	ci.Observed = shortCheckObs(o1) + fmt.Sprintf(" | hovers=%d gotos=%d panics=%d", len(hs), len(gs), panics)
	ci.Coq = fmt.Sprintf("(mk_c18case (mk_ccase %s %s %s) %s %s %s %s)", dumpProgram(pr.Value), coqParseDiags(pr), coqCheckObs(o1), coqCheckObs(o2),
		coqList(ls), coqList(hs), coqList(gs))
	if k := knownSignature(text); k != "" {
		ci.Known = k
	}
	c.add(ci)
}

const typingScript = `vars { monetary $m = balance(@a, USD/2) portion $p account $acc = meta(@a, "k") }
send [USD/2 100] ( source = { @world { @a @b } max [USD/2 1] from { @c } @d allowing unbounded overdraft { 1/2 from @e remaining from @f } $acc allowing overdraft up to $m }
  destination = { max [USD/2 1] to @x max $m kept remaining to { $p to @y remaining kept } } )
send [USD/2 *] ( source = @a allowing unbounded overdraft destination = { 1/3 to @b 2/3 kept } )
save $m from $acc
set_account_meta(@a, "k", $m + [USD/2 1])`

func init() {
	registry["C18"] = func(c *Ctx) {
		c.group("texts", "c18case", "judge_C18")
		if c.replay != nil {
			c.editorCase(c.replay.Text, c.replay.Extra)
			return
		}
		// corpus: texts that crashed the pinned tree
		c.editorCase(kitchenSink, map[string]any{"edit": "corpus"})
		// declarations in the middle of being typed: no name, no type, no origin arguments
		for _, t := range []string{"vars { number = balance(@a, USD/2) }", "vars { account = meta(@a, \"k\") }", "vars { = balance(@a, USD) }", "vars { monetary $x = }",
			"vars { monetary $x = balance( }", "vars { monetary = overdraft(@a, USD) }\nsend [USD 1] (source = @a destination = @b)", "vars { portion $p = meta(@a, ) }", "vars { $x }", "vars { string }"} {
			c.editorCase(t, map[string]any{"edit": "corpus"})
		}
		for _, t := range []string{"vars { number = balance(@a, USD) }", "send [USD 10] (source = @world destination = {1/0 to @a remaining to @b})",
			"send [USD 1] (source = @a destination = {08% to @a remaining to @b})", "vars { $x }", "vars { monetary", "send [", "set_tx_meta("} {
			c.editorCase(t, map[string]any{"edit": "corpus"})
		}
		// a typing session: one script with every kind of source and destination - among them blocks
		// that come AFTER an unbounded source - cut after each of its words, as the user types it
		words := strings.Fields(typingScript)
		for k := 1; k <= len(words); k++ {
			sep := " "
			if k%2 == 0 {
				sep = "\n  "
			}
			c.editorCase(strings.Join(words[:k], sep), map[string]any{"edit": "typing"})
			// ... and in the middle of the next word: its first letter, its first two, all but the last
			if k < len(words) {
				w := []rune(words[k])
				for _, j := range []int{1, 2, len(w) - 1} {
					if j >= 1 && j < len(w) && (j <= 2 || len(w) > 3) {
						c.editorCase(strings.Join(words[:k], sep)+sep+string(w[:j]), map[string]any{"edit": "typing-letters"})
					}
				}
			}
		}
		for _, t := range []string{"vars {\n\tn", "vars { nu", "vars { n $x }", "vars { mo $m = balance(@a, USD) }\nsend $m (source = @a destination = @b)", "vars { a $a p $p s $s }",
			"vars { ac $acc }\nsend [USD 1] (source = $acc destination = @b)", "vars { é $x }", "vars { 😀 $x }",
			// a declaration without a type whose variable is an operand
			"vars { $x }\nset_tx_meta(\"k\", $x + 1)", "vars { $m }\nsend $m - [USD 1] (source = @a destination = @b)", "vars { $n number $k }\nsend [USD $k + $n] (source = @a destination = @b)",
			"vars { = balance(@a, USD) }\nsend [USD 1] + $x (source = @a destination = @b)"} {
			c.editorCase(t, map[string]any{"edit": "corpus"})
		}
		root := NewRand(c.seed)
		n := c.size(260, 12000)
		for i := 0; i < n; i++ {
			r := root.Fork()
			cfg := baseCfg()
			cfg.IllTyped = 10
			cfg.MaxStmts = 3
			cfg.MaxDepth = 2
			cfg.CallWeight = 30
			g := NewGen(r, cfg)
			prog := g.Program()
			p := &Printer{}
			p.program(prog)
			toks := p.Toks
			edit := "none"
			if i%6 != 0 {
				toks, edit = mutateTokens(toks, r)
				if r.Chance(1, 4) {
					var e2 string
					toks, e2 = mutateTokens(toks, r)
					edit += "+" + e2
				}
			}
			if tr := NewRand(c.seed*7919 + uint64(i)); tr.Chance(1, 10) && len(toks) > 0 {
				// a word cut to its first letter or two (a type, a keyword, a name being typed)
				j := tr.Intn(len(toks))
				if w := []rune(toks[j]); len(w) > 1 {
					toks = append(append(append([]string{}, toks[:j]...), string(w[:1+tr.Intn(2)])), toks[j+1:]...)
					edit += "+truncate-word"
				}
			}
			text, _ := Render(toks, i%3/2, r)
			c.editorCase(text, map[string]any{"edit": edit})
			c.count("edit:" + strings.Split(edit, "+")[0])
		}
	}
}
