package main

import (
	"fmt"
	"math/big"

	"github.com/formancehq/numscript"
	"github.com/formancehq/numscript/internal/parser"
)

// Scenario: one execution of a script against a store.
type Scenario struct {
	Text   string
	Vars   map[string]string
	Bal    numscript.Balances
	Meta   numscript.AccountsMetadata
	Kind   storeKind
	FailAt int
	Flag   bool
}

func scenarioFromGen(g *Gen, prog *GProgram, layout int, r *Rand) Scenario {
	p := &Printer{}
	p.program(prog)
	text, _ := Render(p.Toks, layout, r)
	bal := numscript.Balances{}
	for a, m := range g.bal {
		bal[a] = numscript.AccountBalance{}
		for c, v := range m {
			bal[a][c] = new(big.Int).Set(v)
		}
	}
	meta := numscript.AccountsMetadata{}
	for a, m := range g.meta {
		if len(m) == 0 {
			continue
		}
		meta[a] = numscript.AccountMetadata{}
		for k, v := range m {
			meta[a][k] = v
		}
	}
	vars := map[string]string{}
	for k, v := range g.rawVars {
		vars[k] = v
	}
	return Scenario{Text: text, Vars: vars, Bal: bal, Meta: meta, Kind: skExact, FailAt: -1, Flag: g.flag}
}

func (s Scenario) info(kind string) *CaseInfo {
	ci := &CaseInfo{Kind: kind, Text: s.Text, Vars: s.Vars, Store: storeKindCoq[s.Kind], FailAt: s.FailAt, Flag: s.Flag}
	ci.Balances = map[string]map[string]string{}
	for a, m := range s.Bal {
		ci.Balances[a] = map[string]string{}
		for c, v := range m {
			ci.Balances[a][c] = v.String()
		}
	}
	ci.Meta = map[string]map[string]string{}
	for a, m := range s.Meta {
		ci.Meta[a] = map[string]string{}
		for k, v := range m {
			ci.Meta[a][k] = v
		}
	}
	return ci
}

func scenarioFromInfo(ci *CaseInfo) Scenario {
	s := Scenario{Text: ci.Text, Vars: ci.Vars, FailAt: ci.FailAt, Flag: ci.Flag, Bal: numscript.Balances{}, Meta: numscript.AccountsMetadata{}}
	if s.Vars == nil {
		s.Vars = map[string]string{}
	}
	for i, k := range storeKindCoq {
		if k == ci.Store {
			s.Kind = storeKind(i)
		}
	}
	for a, m := range ci.Balances {
		s.Bal[a] = numscript.AccountBalance{}
		for c, v := range m {
			n, _ := new(big.Int).SetString(v, 10)
			s.Bal[a][c] = n
		}
	}
	for a, m := range ci.Meta {
		s.Meta[a] = numscript.AccountMetadata{}
		for k, v := range m {
			s.Meta[a][k] = v
		}
	}
	return s
}

// run executes the scenario on the implementation. The store gets deep copies, so that the
// scenario itself is never modified (C11 checks aliasing separately, on purpose).
func (s Scenario) run() (Outcome, []storeCall) {
	st := newStore(s.Kind, deepCopyBalances(s.Bal), deepCopyMeta(s.Meta), s.FailAt)
	vars := map[string]string{}
	for k, v := range s.Vars {
		vars[k] = v
	}
	o := runImpl(s.Text, vars, st, s.Flag)
	return o, st.log
}

func (s Scenario) coq(o Outcome, log []storeCall) (string, bool) {
	pr := parser.Parse(s.Text)
	fail := "None"
	if s.FailAt >= 0 {
		fail = fmt.Sprintf("(Some %d%%nat)", s.FailAt)
	}
	term := fmt.Sprintf("(mk_icase %s %s %s %s %s %s %s %s)", dumpProgram(pr.Value), coqVars(s.Vars), coqBalances(s.Bal),
		coqMeta(s.Meta), storeKindCoq[s.Kind], fail, coqBool(s.Flag), coqObserved(o, log))
	return term, len(pr.Errors) == 0
}

func shortObserved(o Outcome) string {
	switch o.Class {
	case "ok":
		s := ""
		for i, p := range o.Res.Postings {
			if i > 0 {
				s += "; "
			}
			s += fmt.Sprintf("%s->%s %s %s", p.Source, p.Destination, p.Amount, p.Asset)
		}
		return "ok [" + s + "]"
	case "panic":
		return "panic: " + o.PanicText
	}
	return o.Class + ": " + o.Msg
}

// addScenario runs a scenario and records the case.
func (c *Ctx) addScenario(s Scenario, kind string) *CaseInfo {
	o, log := s.run()
	term, parsedOK := s.coq(o, log)
	ci := s.info(kind)
	ci.Coq = term
	ci.Class = o.Class
	ci.Observed = shortObserved(o)
	if !parsedOK {
		c.count("generator:parse-errors")
	}
	if k := knownSignature(s.Text); k != "" {
		ci.Known = k
	}
	c.add(ci)
	return ci
}

func baseCfg() GenCfg {
	return GenCfg{MaxDepth: 3, MaxStmts: 4, IllTyped: 8, BadAllot: 60, SendAll: 200, Saves: true, Calls: true, Origins: true,
		HugeVars: true, NegCaps: 80, WorldProb: 150}
}

// whole-script cases shared by the interpreter properties; `tweak` adapts the generator profile
func interpCases(c *Ctx, n int, tweak func(cfg *GenCfg, i int), post func(s *Scenario, r *Rand, i int)) {
	if c.replay != nil {
		c.addScenario(scenarioFromInfo(c.replay), "icase")
		return
	}
	root := NewRand(c.seed)
	for i := 0; i < n; i++ {
		r := root.Fork()
		cfg := baseCfg()
		if c.tier == "thorough" && r.Chance(1, 3) {
			cfg.MaxDepth = 5
			cfg.MaxStmts = 6
		}
		if tweak != nil {
			tweak(&cfg, i)
		}
		g := NewGen(r, cfg)
		prog := g.Program()
		s := scenarioFromGen(g, prog, cfg.Layout, r)
		s.Kind = storeKind(r.Weighted(25, 40, 20, 15))
		if post != nil {
			post(&s, r, i)
		}
		c.addScenario(s, "icase")
	}
}

func init() {
	registry["interp"] = func(c *Ctx) {
		c.group("scripts", "icase", "judge_full")
		interpCases(c, c.size(300, 20000), nil, nil)
	}
}
