package main

import (
	"encoding/json"
	"fmt"
	"math/big"
	"strings"

	"github.com/formancehq/numscript"
	"github.com/formancehq/numscript/internal/parser"
)

// Scenario: one execution of a script against a store.
type Scenario struct {
	Text   string
	Vars   map[string]string
	Bal    numscript.Balances
	Meta   numscript.AccountsMetadata
	Kind   storeKind
	FailAt int
	Flag   bool
	Expect []string // C06: the portions as the generator wrote them (Coq terms: Some (num, den) / None), clause by clause
	// the generator's own tree (Coq term, printer's ranges): what the text means. The model and the
	// property predicates work on THIS tree, the implementation on the text: a conversion of the
	// parser that changes the meaning of a script shows up under the property it breaks, not only
	// under C15. Empty when the text does not come from the generator (corpus, hostile texts).
	Expected string
}

func scenarioFromGen(g *Gen, prog *GProgram, layout int, r *Rand) Scenario {
	p := &Printer{}
	p.program(prog)
	text, pos := Render(p.Toks, layout, r)
	var bad bool
	expected := gd{pos, &bad}.program(prog)
	if bad {
		expected = ""
	}
	bal := numscript.Balances{}
	for a, m := range g.bal {
		bal[a] = numscript.AccountBalance{}
		for c, v := range m {
			bal[a][c] = new(big.Int).Set(v)
		}
	}
	meta := numscript.AccountsMetadata{}
	for a, m := range g.meta {
		if len(m) == 0 {
			continue
		}
		meta[a] = numscript.AccountMetadata{}
		for k, v := range m {
			meta[a][k] = v
		}
	}
	vars := map[string]string{}
	for k, v := range g.rawVars {
		vars[k] = v
	}
	// a caller may pass more than the script asks for: an entry for a variable that has an origin (the
	// origin wins), an entry for a name the script does not declare
	for _, d := range prog.Vars {
		if d.Origin != nil && (len(d.Name)+len(text))%2 == 0 {
			if _, given := vars[d.Name]; !given {
				vars[d.Name] = map[string]string{"monetary": "USD 4242", "number": "4242", "account": "intruder", "string": "intruder", "asset": "XXX", "portion": "1/7"}[d.Type]
				if vars[d.Name] == "" {
					delete(vars, d.Name)
				}
			}
		}
	}
	if len(text)%5 == 0 {
		vars["not_declared_anywhere"] = "USD 1"
	}
	return Scenario{Text: text, Vars: vars, Bal: bal, Meta: meta, Kind: skExact, FailAt: -1, Flag: g.flag, Expected: expected}
}

func (s Scenario) info(kind string) *CaseInfo {
	ci := &CaseInfo{Kind: kind, Text: s.Text, Vars: s.Vars, Store: storeKindCoq[s.Kind], FailAt: s.FailAt, Flag: s.Flag}
	ci.Balances = map[string]map[string]string{}
	for a, m := range s.Bal {
		ci.Balances[a] = map[string]string{}
		for c, v := range m {
			ci.Balances[a][c] = v.String()
		}
	}
	ci.Meta = map[string]map[string]string{}
	for a, m := range s.Meta {
		ci.Meta[a] = map[string]string{}
		for k, v := range m {
			ci.Meta[a][k] = v
		}
	}
	if s.Expected != "" {
		ci.Extra = map[string]any{"expected_tree": s.Expected}
	}
	return ci
}

// extra adds entries to the case's extra information (keeping what info() put there)
func (ci *CaseInfo) extra(m map[string]any) {
	if ci.Extra == nil {
		ci.Extra = map[string]any{}
	}
	for k, v := range m {
		ci.Extra[k] = v
	}
}

func (s Scenario) json() string {
	b, _ := json.Marshal(s.info("scenario"))
	return string(b)
}

func scenarioFromInfo(ci *CaseInfo) Scenario {
	s := Scenario{Text: ci.Text, Vars: ci.Vars, FailAt: ci.FailAt, Flag: ci.Flag, Bal: numscript.Balances{}, Meta: numscript.AccountsMetadata{}}
	if s.Vars == nil {
		s.Vars = map[string]string{}
	}
	for i, k := range storeKindCoq {
		if k == ci.Store {
			s.Kind = storeKind(i)
		}
	}
	for a, m := range ci.Balances {
		s.Bal[a] = numscript.AccountBalance{}
		for c, v := range m {
			n, _ := new(big.Int).SetString(v, 10)
			s.Bal[a][c] = n
		}
	}
	for a, m := range ci.Meta {
		s.Meta[a] = numscript.AccountMetadata{}
		for k, v := range m {
			s.Meta[a][k] = v
		}
	}
	if t, ok := ci.Extra["expected_tree"].(string); ok {
		s.Expected = t
	}
	if ps, ok := ci.Extra["portions"].([]any); ok {
		for _, x := range ps {
			if t, ok := x.(string); ok {
				s.Expect = append(s.Expect, t)
			}
		}
	}
	return s
}

// run executes the scenario on the implementation. The store gets deep copies, so that the
// scenario itself is never modified (C11 checks aliasing separately, on purpose).
func (s Scenario) run() (Outcome, []storeCall) {
	st := newStore(s.Kind, deepCopyBalances(s.Bal), deepCopyMeta(s.Meta), s.FailAt)
	if len(s.Text)%3 == 1 {
		st.aliased() // one case in three: equal amounts in an answer are one shared number
	}
	vars := map[string]string{}
	for k, v := range s.Vars {
		vars[k] = v
	}
	o := runImpl(s.Text, vars, st, s.Flag)
	return o, st.log
}

func (s Scenario) coq(o Outcome, log []storeCall) (string, bool) {
	pr := parseSafe(s.Text)
	fail := "None"
	if s.FailAt >= 0 {
		fail = fmt.Sprintf("(Some %d%%nat)", s.FailAt)
	}
	tree := s.treeOf(pr)
	term := fmt.Sprintf("(mk_icase %s %s %s %s %s %s %s %s)", tree, coqVars(s.Vars), coqBalances(s.Bal),
		coqMeta(s.Meta), storeKindCoq[s.Kind], fail, coqBool(s.Flag), coqObserved(o, log))
	return term, len(pr.Errors) == 0
}

// treeOf: the tree the model is given for this scenario - the generator's when there is one
func (s Scenario) treeOf(pr parser.ParseResult) string {
	// ... and the text is a script (no parse error): an edited program may print as something that is not
	if s.Expected != "" && len(pr.Errors) == 0 {
		return s.Expected
	}
	return dumpProgram(pr.Value)
}

func shortObserved(o Outcome) (out string) {
	defer func() {
		if r := recover(); r != nil {
			out = "result cannot be rendered: " + fmt.Sprint(r)
		}
	}()
	switch o.Class {
	case "ok":
		s := ""
		for i, p := range o.Res.Postings {
			if i > 0 {
				s += "; "
			}
			s += fmt.Sprintf("%s->%s %s %s", p.Source, p.Destination, p.Amount, p.Asset)
		}
		return "ok [" + s + "]"
	case "panic":
		return "panic: " + o.PanicText
	}
	return o.Class + ": " + o.Msg
}

// addScenario runs a scenario and records the case.
func (c *Ctx) addScenario(s Scenario, kind string) *CaseInfo {
	o, log := s.run()
	term, parsedOK := s.coq(o, log)
	if c.prop == "C02" {
		// how many postings the implementation has produced after each statement (prefix executions)
		term = fmt.Sprintf("(mk_c02case %s %s)", term, coqIntList(s.prefixPostingCounts(o)))
	}
	if c.prop == "C06" {
		// the portions as written by the generator: the tree the interpreter works on comes from the
		// implementation's own parser, so "the exact portion" is judged against the text, not against it
		term = fmt.Sprintf("(mk_c06case %s %s)", term, coqList(s.Expect))
	}
	ci := s.info(kind)
	if len(s.Expect) > 0 {
		ci.extra(map[string]any{"portions": s.Expect})
	}
	ci.Coq = term
	ci.Class = o.Class
	ci.Observed = shortObserved(o)
	if !parsedOK {
		c.count("generator:parse-errors")
	}
	if k := knownSignature(s.Text); k != "" {
		ci.Known = k
	}
	c.add(ci)
	return ci
}

func coqIntList(xs []int) string {
	var ys []string
	for _, x := range xs {
		if x < 0 {
			ys = append(ys, fmt.Sprintf("(%d)", x))
		} else {
			ys = append(ys, fmt.Sprint(x))
		}
	}
	return coqList(ys)
}

// prefixPostingCounts runs the script truncated after each statement (same variables, same store
// content) and returns the number of postings of each prefix; -1 when a prefix does not succeed.
func (s Scenario) prefixPostingCounts(whole Outcome) []int {
	if whole.Class != "ok" {
		return nil
	}
	pr := parseSafe(s.Text)
	if len(pr.Errors) != 0 {
		return nil
	}
	lines := strings.Split(s.Text, "\n")
	offset := func(p parser.Position) int { // rune offset of a position
		off := 0
		for i := 0; i < p.Line && i < len(lines); i++ {
			off += len([]rune(lines[i])) + 1
		}
		return off + p.Character
	}
	rs := []rune(s.Text)
	var out []int
	for _, st := range pr.Value.Statements {
		end := offset(st.GetRange().End)
		if end > len(rs) {
			end = len(rs)
		}
		pre := s
		pre.Text = string(rs[:end])
		pre.FailAt = -1
		o, _ := pre.run()
		if o.Class != "ok" {
			out = append(out, -1)
		} else {
			out = append(out, len(o.Res.Postings))
		}
	}
	return out
}

func baseCfg() GenCfg {
	return GenCfg{MaxDepth: 3, MaxStmts: 4, IllTyped: 8, BadAllot: 60, SendAll: 200, Saves: true, Calls: true, Origins: true,
		HugeVars: true, NegCaps: 80, WorldProb: 150}
}

// whole-script cases shared by the interpreter properties; `tweak` adapts the generator profile
func interpCases(c *Ctx, n int, tweak func(cfg *GenCfg, i int), post func(s *Scenario, r *Rand, i int)) {
	if c.replay != nil {
		c.addScenario(scenarioFromInfo(c.replay), "icase")
		return
	}
	root := NewRand(c.seed)
	for i := 0; i < n; i++ {
		r := root.Fork()
		cfg := baseCfg()
		if c.tier == "thorough" && r.Chance(1, 3) {
			cfg.MaxDepth = 5
			cfg.MaxStmts = 6
		}
		if tweak != nil {
			tweak(&cfg, i)
		}
		g := NewGen(r, cfg)
		var prog *GProgram
		switch cfg.Directed {
		case "keptSpan":
			prog = g.keptSpanProgram()
			c.count("directed:keptSpan")
		case "repeatDraw":
			prog = g.repeatDrawProgram()
			c.count("directed:repeatDraw")
		case "saveThenUse":
			prog = g.saveThenUseProgram()
			c.count("directed:saveThenUse")
		case "unboundedThenBounded":
			prog = g.unboundedThenBoundedProgram()
			c.count("directed:unboundedThenBounded")
		case "hugeSum":
			prog = g.hugeSumProgram()
			c.count("directed:hugeSum")

		case "overdraftTwice":
			prog = g.overdraftTwiceProgram()
			c.count("directed:overdraftTwice")
		case "effectsCarry":
			prog = g.effectsCarryProgram()
			c.count("directed:effectsCarry")
		case "repeatDest":
			prog = g.repeatDestProgram()
			c.count("directed:repeatDest")
		case "overdraftOrigin":
			prog = g.overdraftOriginProgram()
			c.count("directed:overdraftOrigin")
		case "varReuseSaves":
			prog = g.varReuseProgram(0, true)
			c.count("directed:varReuseSaves")
		case "varReuseCaps":
			prog = g.varReuseProgram(1, false)
			c.count("directed:varReuseCaps")
		case "varReuseSends":
			prog = g.varReuseProgram(2, true)
			c.count("directed:varReuseSends")
		case "varReuseInfix":
			prog = g.varReuseProgram(3, true)
			c.count("directed:varReuseInfix")
		case "mismatchSum":
			prog = g.mismatchSumProgram()
			c.count("directed:mismatchSum")
		case "cappedWorldThen":
			prog = g.cappedWorldThenProgram()
			c.count("directed:cappedWorldThen")
		case "wordMultiple":
			prog = g.wordMultipleProgram()
			c.count("directed:wordMultiple")
		case "worldLookalike":
			prog = g.worldLookalikeProgram()
			c.count("directed:worldLookalike")
		case "edgeLiteral":
			prog = g.edgeLiteralProgram()
			c.count("directed:edgeLiteral")
		case "metaCapRewrite":
			prog = g.metaCapRewriteProgram()
			c.count("directed:metaCapRewrite")
		case "zeroTwins":
			prog = g.zeroTwinsProgram()
			c.count("directed:zeroTwins")
		case "keyCollision":
			prog = g.keyCollisionProgram()
			c.count("directed:keyCollision")
		case "negVarSend":
			prog = g.negVarSendProgram()
			c.count("directed:negVarSend")
		case "nestedDebt":
			prog = g.nestedDebtProgram()
			c.count("directed:nestedDebt")
		case "sweepDebt":
			prog = g.sweepDebtProgram()
			c.count("directed:sweepDebt")
		case "saveDiff":
			prog = g.saveDiffProgram()
			c.count("directed:saveDiff")
		case "edgeCapSumDest":
			prog = g.edgeCapSumProgram(true)
			c.count("directed:edgeCapSumDest")
		case "edgeCapSumSrc":
			prog = g.edgeCapSumProgram(false)
			c.count("directed:edgeCapSumSrc")
		case "twoAssets":
			prog = g.twoAssetsProgram()
			c.count("directed:twoAssets")
		case "capVarReuse":
			prog = g.capVarReuseProgram(cfg.OneSend)
			c.count("directed:capVarReuse")
		case "nestedKept":
			prog = g.nestedKeptProgram()
			c.count("directed:nestedKept")
		case "zeroShare":
			prog = g.zeroShareProgram()
			c.count("directed:zeroShare")
		case "saveAllDebt":
			prog = g.saveAllDebtProgram()
			c.count("directed:saveAllDebt")
		case "remainingFirst":
			prog = g.remainingFirstProgram()
			c.count("directed:remainingFirst")
		case "originOtherAsset":
			prog = g.originOtherAssetProgram(cfg.OneSend)
			c.count("directed:originOtherAsset")
		default:
			prog = g.Program()
		}
		s := scenarioFromGen(g, prog, cfg.Layout, r)
		s.Kind = storeKind(r.Weighted(25, 40, 20, 15))
		if post != nil {
			post(&s, r, i)
		}
		c.addScenario(s, "icase")
	}
}

// countCalls runs the scenario without fault injection and returns how many store calls it makes.
func (s Scenario) countCalls() int {
	s.FailAt = -1
	st := newStore(s.Kind, deepCopyBalances(s.Bal), deepCopyMeta(s.Meta), -1)
	runImpl(s.Text, s.Vars, st, s.Flag)
	return st.ncalls
}

// c06Program builds `send [A n] (source = @world destination = {p_i to @d_i ...})` or the
// mirrored source form, with distinct accounts, so that each clause's share is observable.
func c06Program(g *Gen, r *Rand, n *big.Int, mirrored bool) *GProgram {
	g.asset = assetPool[r.Weighted(80, 10, 10)]
	k := 1 + r.Weighted(10, 40, 30, 20)
	allots := g.allots(k)
	if r.Chance(1, 10) {
		// two portion VARIABLES given as percentages with 19 to 26 decimals that add up to exactly 100%
		k := 19 + r.Intn(8)
		third := strings.Repeat("3", k)
		rest := strings.Repeat("6", k-1) + "7"
		g.prog.Vars = append(g.prog.Vars, &GVarDecl{Type: "portion", Name: "pa"}, &GVarDecl{Type: "portion", Name: "pb"})
		g.rawVars["pa"] = "33." + third + "%"
		g.rawVars["pb"] = "66." + rest + "%"
		if r.Chance(1, 3) {
			g.rawVars["pa"] = "0." + strings.Repeat("0", k-1) + "1%"
			g.rawVars["pb"] = "99." + strings.Repeat("9", k) + "%"
		}
		allots = []*GAllot{{Kind: AlVar, E: &GExpr{Kind: XVar, S: "pa"}}, {Kind: AlVar, E: &GExpr{Kind: XVar, S: "pb"}}}
		if r.Chance(1, 2) {
			n = new(big.Int).Exp(bi(10), bi(int64(20+r.Intn(8))), nil)
		}
	} else if r.Chance(1, 8) {
		// ONE portion variable written in two clauses (the shares of the second must not depend on the first)
		den := int64(2 + r.Intn(9))
		num := int64(1 + r.Intn(int(den)/2))
		name := g.freshName()
		raw := g.portionText(bi(num), bi(den))
		g.prog.Vars = append(g.prog.Vars, &GVarDecl{Type: "portion", Name: name})
		g.rawVars[name] = raw
		use := func() *GAllot { return &GAllot{Kind: AlVar, E: &GExpr{Kind: XVar, S: name}} }
		allots = []*GAllot{use(), use(), {Kind: AlRemaining}}
		if 2*num == den {
			allots = allots[:2]
		}
		if r.Chance(1, 3) {
			allots[0], allots[1] = allots[1], allots[0]
		}
	}
	var amount *GExpr
	if n.IsInt64() {
		amount = &GExpr{Kind: XMonetary, A: &GExpr{Kind: XAsset, S: g.asset}, B: &GExpr{Kind: XNumber, N: n}}
	} else {
		name := g.freshName()
		raw := g.asset + " " + n.String()
		g.prog.Vars = append(g.prog.Vars, &GVarDecl{Type: "monetary", Name: name})
		g.rawVars[name] = raw
		amount = &GExpr{Kind: XVar, S: name}
	}
	st := &GStmt{Kind: StSend, Sent: &GSent{E: amount}}
	if mirrored {
		src := &GSource{Kind: SrcAllot}
		for i, a := range allots {
			src.Items = append(src.Items, &GSrcItem{Allot: a, From: &GSource{Kind: SrcOverdraft, E: &GExpr{Kind: XAccount, S: fmt.Sprintf("s%d", i)}}})
		}
		st.Src = src
		st.Dst = &GDest{Kind: DstAccount, E: &GExpr{Kind: XAccount, S: "sink"}}
	} else {
		st.Src = &GSource{Kind: SrcAccount, E: &GExpr{Kind: XAccount, S: "world"}}
		d := &GDest{Kind: DstAllot}
		for i, a := range allots {
			to := &GKod{To: &GDest{Kind: DstAccount, E: &GExpr{Kind: XAccount, S: fmt.Sprintf("d%d", i)}}}
			if r.Chance(1, 12) {
				to = &GKod{Kept: true}
			}
			d.Items = append(d.Items, &GDestItem{Allot: a, To: to})
		}
		st.Dst = d
	}
	g.prog.Stmts = append(g.prog.Stmts, st)
	return g.prog
}

func init() {
	registry["C01"] = func(c *Ctx) {
		c.group("scripts", "icase", "judge_C01")
		interpCases(c, c.size(400, 20000), func(cfg *GenCfg, i int) {
			cfg.IllTyped = 2
			cfg.BadAllot = 15
			cfg.Origins = i%5 == 0
			cfg.Calls = false
			cfg.WorldProb = 80
			cfg.WorldSub = i%16 == 2 || i%32 == 27
			cfg.MaxStmts = 5
			switch i % 8 {
			case 3:
				cfg.Directed = "repeatDraw"
			case 6:
				cfg.Directed = "saveThenUse"
			case 7:
				cfg.Directed = "unboundedThenBounded"
			case 5:
				cfg.Directed = "varReuseSends"
				if i%16 == 13 {
					cfg.Directed = "varReuseInfix"
				}
			case 1:
				cfg.Directed = "overdraftOrigin"
			case 4:
				cfg.Directed = "overdraftTwice"
			case 0:
				cfg.Directed = "effectsCarry"
			}
			cfg.SelfLead = i%8 == 2
			// class 2 mod 8 (300 of 2400): three directed templates, look-alikes of @world, and free generation
			// (26, 34, 58 mod 64; with more negative caps than elsewhere); half of class 3 is free as well
			switch i % 64 {
			case 10, 42:
				cfg.SelfLead, cfg.Directed = false, "worldLookalike"
			case 18:
				cfg.SelfLead, cfg.Directed = false, "originOtherAsset"
			case 2:
				cfg.SelfLead, cfg.Directed = false, "twoAssets"
			case 50:
				cfg.SelfLead, cfg.Directed = false, "zeroTwins"
			case 26:
				cfg.NegCaps = 300
			case 34:
				cfg.SelfLead, cfg.Directed = false, "nestedDebt"
			case 58:
				cfg.SelfLead, cfg.Directed = false, "sweepDebt"
			}
			if i%16 == 11 {
				cfg.Directed = ""
				cfg.NegCaps = 200
				cfg.SelfLead = i%32 == 11
			}
		}, func(s *Scenario, r *Rand, i int) {
			if i%64 == 2 {
				s.Kind = skSparse // half of the twoAssets cases: the store says nothing (or nil) about what it does not hold
			}
		})
	}
	registry["C02"] = func(c *Ctx) {
		c.group("scripts", "c02case", "judge_C02")
		interpCases(c, c.size(400, 20000), func(cfg *GenCfg, i int) {
			cfg.IllTyped = 2
			cfg.BadAllot = 15
			cfg.NegCaps = 250
			cfg.Hostile = 150
			cfg.Calls = false
			cfg.Origins = i%4 == 0
			switch i % 8 {
			case 3:
				cfg.Directed = "keptSpan"
			case 6:
				cfg.Directed = "repeatDraw"
			case 5:
				if i%16 == 5 {
					cfg.Directed = "mismatchSum"
				} else {
					cfg.Directed = "negVarSend"
				}
			}
		}, nil)
	}
	registry["C03"] = func(c *Ctx) {
		c.group("sends", "icase", "judge_C03")
		interpCases(c, c.size(400, 20000), func(cfg *GenCfg, i int) {
			cfg.OneSend = true
			cfg.SendAll = 0
			cfg.IllTyped = 3
			cfg.BadAllot = 25
			cfg.Calls = false
			cfg.Saves = i%3 == 0
			cfg.Origins = i%6 == 0
			cfg.KeptBias = i%2 == 0
			cfg.SmallPool = i%4 == 1
			cfg.OtherAssetLead = i%7 == 2
			cfg.SelfLead = i%7 == 5
			cfg.OutOfRangeLits = i%10 == 4
			cfg.FreePrefix = i%5 == 4
			switch i % 10 {
			case 1:
				cfg.Directed = "hugeSum"
				if i%20 == 11 {
					cfg.Directed = "wordMultiple"
				}
			case 3:
				cfg.Directed = "keptSpan"
			case 6:
				cfg.Directed = "saveThenUse"
			case 9:
				cfg.Directed = "repeatDraw"
			case 7:
				cfg.Directed = "capVarReuse"
			case 5:
				if i%20 == 5 {
					cfg.Directed = "originOtherAsset"
				} else {
					cfg.Directed = "varReuseSends"
				}
			case 2:
				if i%20 == 2 {
					cfg.Directed = "nestedKept"
				} else {
					cfg.Directed = "edgeLiteral"
				}
			}
		}, nil)
	}
	registry["C04"] = func(c *Ctx) {
		c.group("sends", "icase", "judge_C04")
		interpCases(c, c.size(400, 20000), func(cfg *GenCfg, i int) {
			cfg.OneSend = true
			cfg.SrcOnly = true
			cfg.SendAll = 350
			cfg.IllTyped = 2
			cfg.BadAllot = 25
			cfg.Calls = false
			cfg.Saves = i%4 == 0
			cfg.Origins = false
			cfg.MaxDepth = 4
			cfg.SmallPool = i%3 == 0
			cfg.SelfLead = i%5 == 3
			cfg.FreePrefix = i%5 == 1
			cfg.WorldSub = i%4 == 2
			switch i % 20 {
			case 7:
				cfg.Directed = "capVarReuse"
			case 12, 17:
				cfg.Directed = "originOtherAsset"
			case 3:
				cfg.Directed = "zeroShare"
			case 9:
				cfg.Directed = "overdraftOrigin"
			case 15:
				cfg.Directed = "saveAllDebt"
			case 5:
				cfg.Directed = "remainingFirst"
			case 11, 19:
				cfg.Directed = "cappedWorldThen"
			case 13:
				cfg.Directed = "worldLookalike"
			case 1:
				cfg.Directed = "keyCollision"
			case 16:
				cfg.Directed = "edgeCapSumSrc"
			}
		}, nil)
	}
	registry["C05"] = func(c *Ctx) {
		c.group("sends", "icase", "judge_C05")
		interpCases(c, c.size(400, 20000), func(cfg *GenCfg, i int) {
			cfg.OneSend = true
			cfg.DstOnly = true
			cfg.SendAll = 0
			cfg.IllTyped = 2
			cfg.BadAllot = 25
			cfg.NegCaps = 200
			cfg.Calls = false
			cfg.Saves = false
			cfg.Origins = false
			cfg.MaxDepth = 4
			if i%10 == 7 {
				cfg.Directed = "varReuseCaps"
			}
			if i%20 == 13 {
				cfg.Directed = "nestedKept"
			}
			if i%20 == 3 {
				cfg.Directed = "metaCapRewrite"
			}
			if i%20 == 9 {
				cfg.Directed = "edgeCapSumDest"
			}
			cfg.FreePrefix = i%5 == 2
		}, nil)
	}
	registry["C06"] = func(c *Ctx) {
		c.group("splits", "c06case", "judge_C06w")
		if c.replay != nil {
			c.addScenario(scenarioFromInfo(c.replay), "c06case")
			return
		}
		root := NewRand(c.seed)
		n := c.size(300, 4000)
		for i := 0; i < n; i++ {
			r := root.Fork()
			cfg := baseCfg()
			cfg.BadAllot = 80
			g := NewGen(r, cfg)
			var amt *big.Int
			switch r.Weighted(50, 25, 25) {
			case 0:
				amt = bi(int64(r.Intn(41)))
			case 1:
				amt = bi(int64(r.Intn(100000)))
			default:
				amt = r.Amount(nil, false)
			}
			if i%12 == 5 {
				// nothing to split: the portions must still be checked
				amt = bi(0)
				g.cfg.BadAllot = 500
			}
			prog := c06Program(g, r, amt, i%4 == 3)
			s := scenarioFromGen(g, prog, 0, r)
			st := prog.Stmts[len(prog.Stmts)-1]
			var written []*GAllot
			if st.Dst != nil && st.Dst.Kind == DstAllot {
				for _, it := range st.Dst.Items {
					written = append(written, it.Allot)
				}
			} else if st.Src != nil && st.Src.Kind == SrcAllot {
				for _, it := range st.Src.Items {
					written = append(written, it.Allot)
				}
			}
			for _, a := range written {
				if a.Kind == AlRatio {
					s.Expect = append(s.Expect, fmt.Sprintf("(Some (%s, %s))", coqZ(a.E.Num), coqZ(a.E.Den)))
				} else {
					s.Expect = append(s.Expect, "None")
				}
			}
			c.addScenario(s, "c06case")
		}
		if c.tier == "thorough" {
			// exhaustive small scope: portion vectors with denominators <= 6 and <= 3 clauses x totals 0..40
			count := 0
			for d := int64(1); d <= 6; d++ {
				for k := 1; k <= 3; k++ {
					var rec func(parts []int64, left int64)
					rec = func(parts []int64, left int64) {
						if len(parts) == k-1 {
							all := append(append([]int64{}, parts...), left)
							for total := int64(0); total <= 40; total += 1 {
								r := root.Fork()
								g := NewGen(r, baseCfg())
								g.asset = "USD"
								dst := &GDest{Kind: DstAllot}
								for i, p := range all {
									dst.Items = append(dst.Items, &GDestItem{Allot: &GAllot{Kind: AlRatio, E: &GExpr{Kind: XRatio, Text: fmt.Sprintf("%d/%d", p, d), Num: bi(p), Den: bi(d)}},
										To: &GKod{To: &GDest{Kind: DstAccount, E: &GExpr{Kind: XAccount, S: fmt.Sprintf("d%d", i)}}}})
								}
								g.prog.Stmts = []*GStmt{{Kind: StSend, Sent: &GSent{E: &GExpr{Kind: XMonetary, A: &GExpr{Kind: XAsset, S: "USD"}, B: &GExpr{Kind: XNumber, N: bi(total)}}},
									Src: &GSource{Kind: SrcAccount, E: &GExpr{Kind: XAccount, S: "world"}}, Dst: dst}}
								s := scenarioFromGen(g, g.prog, 0, r)
								s.Bal = numscript.Balances{}
								c.addScenario(s, "c06case")
								count++
							}
							return
						}
						for x := int64(0); x <= left; x++ {
							rec(append(parts, x), left-x)
						}
					}
					rec(nil, d)
				}
			}
			c.stats["exhaustive_cases"] = count
		}
	}
	registry["C08"] = func(c *Ctx) {
		c.group("scripts", "icase", "judge_C08")
		interpCases(c, c.size(300, 20000), func(cfg *GenCfg, i int) {
			cfg.LeadSaves = true
			cfg.Saves = true
			cfg.Calls = false
			cfg.IllTyped = 0
			cfg.BadAllot = 10
			cfg.Origins = false
			cfg.WorldProb = 60
			if i%3 == 0 {
				cfg.Directed = "saveThenUse"
			}
			if i%9 == 4 {
				cfg.Directed = "varReuseSaves"
			}
			if i%18 == 7 {
				cfg.Directed = "saveAllDebt"
			}
			if i%18 == 16 {
				cfg.Directed = "saveDiff"
			}
		}, nil)
	}
	registry["C12"] = func(c *Ctx) {
		c.group("scripts", "icase", "judge_C12")
		if c.replay != nil {
			c.addScenario(scenarioFromInfo(c.replay), "icase")
			return
		}
		// every hostile text for a variable of every type, directly (vars map) and through meta()
		hostile := []string{"", " ", "  ", "+", "-", "+5", "-0", "00", "abc", "12", "-7", "USD", "USD 10", "USD  10", "USD 1 0", "USD ten", "USD +5", "USD -5", " USD 5", "USD 5 ", "10 USD",
			"1/2", "1/0", "3/2", " 1/2", "1 / 2", "1  /2", "50%", "150%", "1.5%", ".5%", "5.%", "%", "/", "0x10", "1e3", "1_000", "99999999999999999999999999", "world", "a:b", "a::b", ":a", "é", "<kept>", "a b", "\n"}
		for _, typ := range []string{"number", "monetary", "portion", "account", "asset", "string"} {
			for _, raw := range hostile {
				text := "vars { " + typ + " $v }\nset_tx_meta(\"k\", $v)\nsend [USD 1] (source = @world destination = @a)"
				c.addScenario(Scenario{Text: text, Vars: map[string]string{"v": raw}, Bal: numscript.Balances{}, Meta: numscript.AccountsMetadata{}, Kind: skStatic, FailAt: -1}, "icase")
				textm := "vars { " + typ + " $v = meta(@m, \"k\") }\nset_tx_meta(\"k\", $v)"
				c.addScenario(Scenario{Text: textm, Vars: map[string]string{}, Bal: numscript.Balances{}, Meta: numscript.AccountsMetadata{"m": {"k": raw}}, Kind: skExact, FailAt: -1}, "icase")
				c.count("hostile_variable_texts")
			}
		}
		root := NewRand(c.seed)
		n := c.size(220, 8000)
		for i := 0; i < n; i++ {
			r := root.Fork()
			cfg := baseCfg()
			cfg.IllTyped = 60
			cfg.Garbage = 120
			cfg.Hostile = 100
			cfg.BadAllot = 100
			if i%3 == 0 {
				cfg.IllTyped = 5
				cfg.Garbage = 20
			}
			g := NewGen(r, cfg)
			prog := g.Program()
			s := scenarioFromGen(g, prog, 0, r)
			s.Kind = storeKind(r.Weighted(25, 40, 20, 15))
			c.addScenario(s, "icase")
			// fault enumeration: a store error at every call index the run reaches
			ncalls := s.countCalls()
			c.stats["store_calls_total"] += ncalls
			for k := 0; k < ncalls; k++ {
				f := s
				f.FailAt = k
				c.addScenario(f, "icase")
				c.count("fault_injections")
			}
		}
	}
	registry["interp"] = func(c *Ctx) {
		c.group("scripts", "icase", "judge_full")
		interpCases(c, c.size(300, 20000), nil, nil)
	}
}
