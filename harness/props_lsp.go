package main

import (
	"bytes"
	"encoding/json"
	"fmt"
	"io"
	"os"
	"os/exec"
	"sort"
	"strconv"
	"strings"
	"time"

	"github.com/formancehq/numscript/internal/analysis"
	"github.com/formancehq/numscript/internal/lsp"
	"github.com/formancehq/numscript/internal/parser"
	"github.com/sourcegraph/jsonrpc2"
)

// captureStdout runs f with os.Stdout and os.Stderr redirected to pipes and returns what was
// written to stdout (the server writes its notifications there).
func captureStdout(f func()) string {
	oldOut, oldErr := os.Stdout, os.Stderr
	r, w, err := os.Pipe()
	if err != nil {
		f()
		return ""
	}
	devnull, _ := os.OpenFile(os.DevNull, os.O_WRONLY, 0)
	os.Stdout, os.Stderr = w, devnull
	done := make(chan string)
	go func() {
		b, _ := io.ReadAll(r)
		done <- string(b)
	}()
	func() {
		defer func() {
			os.Stdout, os.Stderr = oldOut, oldErr
			w.Close()
			if devnull != nil {
				devnull.Close()
			}
		}()
		f()
	}()
	out := <-done
	r.Close()
	return out
}

type lspReq struct {
	Op   string `json:"op"`
	URI  string `json:"uri"`
	Tid  int    `json:"tid,omitempty"`
	Line int    `json:"line,omitempty"`
	Char int    `json:"char,omitempty"`
}

func rawParams(v any) *json.RawMessage {
	b, _ := json.Marshal(v)
	r := json.RawMessage(b)
	return &r
}

func lspRange(r lsp.Range) string {
	return fmt.Sprintf("(R %d %d %d %d)", r.Start.Line, r.Start.Character, r.End.Line, r.End.Character)
}

// lspRequestOf builds the JSON-RPC request of one history entry (the same for the in-process and the
// wire runs). Requests that expect an answer get an id, notifications none.
// versionAt: the version a client gives the document of entry i - 1 when it is opened, one more for
// every change since (each document has its own counter)
func versionAt(hist []lspReq, i int) int {
	v := 0
	for j := 0; j <= i; j++ {
		if hist[j].URI != hist[i].URI {
			continue
		}
		switch hist[j].Op {
		case "open":
			v = 1
		case "change":
			v++
		}
	}
	return v
}

func lspRequestOf(texts []string, hist []lspReq, i int) jsonrpc2.Request {
	rq := hist[i]
	req := jsonrpc2.Request{}
	switch rq.Op {
	case "open":
		req.Method = "textDocument/didOpen"
		req.Notif = true
		req.Params = rawParams(map[string]any{"textDocument": map[string]any{"uri": rq.URI, "text": texts[rq.Tid], "languageId": "numscript", "version": 1}})
	case "change":
		req.Method = "textDocument/didChange"
		req.Notif = true
		changes := []any{}
		for k := 0; k < (rq.Tid+len(rq.URI)+len(hist))%3; k++ {
			changes = append(changes, map[string]any{"text": texts[(rq.Tid+1+k)%len(texts)]})
		}
		changes = append(changes, map[string]any{"text": texts[rq.Tid]})
		req.Params = rawParams(map[string]any{"textDocument": map[string]any{"uri": rq.URI, "version": versionAt(hist, i)}, "contentChanges": changes})
	case "hover":
		req.Method = "textDocument/hover"
		req.ID = jsonrpc2.ID{Num: uint64(i + 1)}
		req.Params = rawParams(map[string]any{"textDocument": map[string]any{"uri": rq.URI}, "position": map[string]any{"line": rq.Line, "character": rq.Char}})
	case "def":
		req.Method = "textDocument/definition"
		req.ID = jsonrpc2.ID{Num: uint64(i + 1)}
		req.Params = rawParams(map[string]any{"textDocument": map[string]any{"uri": rq.URI}, "position": map[string]any{"line": rq.Line, "character": rq.Char}})
	default:
		req.Method = "textDocument/documentSymbol"
		req.ID = jsonrpc2.ID{Num: uint64(i + 1)}
		req.Params = rawParams(map[string]any{"textDocument": map[string]any{"uri": rq.URI}})
	}
	return req
}

// canonJSON: keys sorted (encoding/json does that for maps) and every array of objects sorted by
// content - symbols and diagnostics come out of Go maps, in no particular order
func canonJSON(v any) any {
	switch x := v.(type) {
	case map[string]any:
		for k, e := range x {
			x[k] = canonJSON(e)
		}
		return x
	case []any:
		objs := true
		for i, e := range x {
			x[i] = canonJSON(e)
			if _, ok := x[i].(map[string]any); !ok {
				objs = false
			}
		}
		if objs {
			keys := make([]string, len(x))
			for i, e := range x {
				b, _ := json.Marshal(e)
				keys[i] = string(b)
			}
			sort.Sort(byKey{keys, x})
		}
		return x
	}
	return v
}

type byKey struct {
	k []string
	v []any
}

func (b byKey) Len() int           { return len(b.k) }
func (b byKey) Less(i, j int) bool { return b.k[i] < b.k[j] }
func (b byKey) Swap(i, j int)      { b.k[i], b.k[j] = b.k[j], b.k[i]; b.v[i], b.v[j] = b.v[j], b.v[i] }

// framed messages of an LSP stream, each reduced to its JSON in canonical form
func splitFrames(stream string) []string {
	var out []string
	for len(stream) > 0 {
		idx := strings.Index(stream, "\r\n\r\n")
		if idx < 0 {
			out = append(out, "UNFRAMED:"+stream)
			break
		}
		n := -1
		for _, h := range strings.Split(stream[:idx], "\r\n") {
			if strings.HasPrefix(strings.ToLower(h), "content-length:") {
				n, _ = strconv.Atoi(strings.TrimSpace(h[len("content-length:"):]))
			}
		}
		body := stream[idx+4:]
		if n < 0 || n > len(body) {
			out = append(out, "BADLENGTH:"+stream)
			break
		}
		var v any
		if json.Unmarshal([]byte(body[:n]), &v) != nil {
			out = append(out, "BADJSON:"+body[:n])
		} else {
			b, _ := json.Marshal(canonJSON(v))
			out = append(out, string(b))
		}
		stream = body[n:]
	}
	return out
}

// wireSame runs the history through the `numscript lsp` process - requests framed with
// Content-Length on its stdin, everything it writes to stdout read back - and compares the stream of
// messages with what the same requests produce in process (notifications written by the handlers,
// then the response, request by request, as lsp/server.go frames them).
func wireSame(texts []string, hist []lspReq) (same bool, detail string) {
	bin := os.Getenv("VERIF_CLI")
	if bin == "" {
		return true, "no binary"
	}
	var in bytes.Buffer
	var want []string
	state := lsp.InitialState()
	for i := range hist {
		req := lspRequestOf(texts, hist, i)
		b, _ := json.Marshal(req)
		fmt.Fprintf(&in, "Content-Length: %d\r\n\r\n%s", len(b), b)
		// what the server is expected to write for this request: it decodes the very bytes just framed
		var dec jsonrpc2.Request
		if dec.UnmarshalJSON(b) != nil {
			return true, "request does not decode"
		}
		var ret any
		pan := false
		out := captureStdout(func() {
			defer func() {
				if recover() != nil {
					pan = true
				}
			}()
			ret = lsp.Handle(dec, &state)
		})
		if pan {
			return true, "in-process panic (judged elsewhere)"
		}
		want = append(want, splitFrames(out)...)
		rb, _ := json.Marshal(ret)
		raw := json.RawMessage(rb)
		resp, _ := json.Marshal(jsonrpc2.Response{ID: dec.ID, Result: &raw})
		var v any
		json.Unmarshal(resp, &v)
		cb, _ := json.Marshal(canonJSON(v))
		want = append(want, string(cb))
	}
	cmd := exec.Command(bin, "lsp")
	cmd.Stdin = &in
	var stdout bytes.Buffer
	cmd.Stdout = &stdout
	cmd.Stderr = io.Discard
	done := make(chan error, 1)
	if err := cmd.Start(); err != nil {
		return true, "cannot start: " + err.Error()
	}
	go func() { done <- cmd.Wait() }()
	select {
	case <-done:
	case <-time.After(180 * time.Second):
		cmd.Process.Kill()
		return false, "the server did not exit at end of input"
	}
	got := splitFrames(stdout.String())
	if len(got) != len(want) {
		return false, fmt.Sprintf("%d messages on the wire, %d expected", len(got), len(want))
	}
	for i := range got {
		if got[i] != want[i] {
			return false, fmt.Sprintf("message %d: wire %s, expected %s", i, got[i], want[i])
		}
	}
	return true, fmt.Sprintf("%d messages", len(got))
}

// runLspHistory feeds the history to lsp.Handle and renders each observation as a Coq term.
func runLspHistory(texts []string, hist []lspReq) (obs []string, short []string, panicked bool) {
	state := lsp.InitialState()
	// per text: fresh diagnostics, to recover the kind of a published diagnostic from (range, message)
	type key struct {
		r   parser.Range
		msg string
	}
	kinds := make([]map[key]string, len(texts))
	for i, t := range texts {
		kinds[i] = map[key]string{}
		func() {
			defer func() { recover() }()
			for _, d := range analysis.CheckSource(t).Diagnostics {
				kinds[i][key{d.Range, d.Kind.Message()}] = coqDiagKind(d.Kind)
			}
		}()
	}
	latest := map[string]int{}
	for hi, rq := range hist {
		var ret any
		var out string
		pan := false
		if (hi+len(texts[0]))%3 == 1 {
			// between two requests of the history, one the specification does not know of - initialize, a close
			// or save notification, a cancellation, a method that does not exist - about the same document: none
			// of them changes any document or produces anything the history sees
			noise := jsonrpc2.Request{Method: []string{"initialize", "textDocument/didClose", "textDocument/didSave", "$/cancelRequest", "workspace/didChangeConfiguration", "textDocument/completion", "shutdown"}[(hi/3)%7]}
			noise.Params = rawParams(map[string]any{"textDocument": map[string]any{"uri": rq.URI, "version": 99, "text": "send [X 1] (source=@world destination=@noise)"}, "position": map[string]any{"line": 0, "character": 0}})
			captureStdout(func() {
				defer func() { recover() }()
				lsp.Handle(noise, &state)
			})
		}
		req := jsonrpc2.Request{}
		switch rq.Op {
		case "open":
			req.Method = "textDocument/didOpen"
			req.Params = rawParams(map[string]any{"textDocument": map[string]any{"uri": rq.URI, "text": texts[rq.Tid], "languageId": "numscript", "version": 1}})
			latest[rq.URI] = rq.Tid
		case "change":
			req.Method = "textDocument/didChange"
			// full-document sync: a notification may carry several changes, the last one is the document
			changes := []any{}
			for k := 0; k < (rq.Tid+len(rq.URI)+len(hist))%3; k++ {
				changes = append(changes, map[string]any{"text": texts[(rq.Tid+1+k)%len(texts)]})
			}
			changes = append(changes, map[string]any{"text": texts[rq.Tid]})
			req.Params = rawParams(map[string]any{"textDocument": map[string]any{"uri": rq.URI, "version": versionAt(hist, hi)}, "contentChanges": changes})
			latest[rq.URI] = rq.Tid
		case "hover":
			req.Method = "textDocument/hover"
			req.Params = rawParams(map[string]any{"textDocument": map[string]any{"uri": rq.URI}, "position": map[string]any{"line": rq.Line, "character": rq.Char}})
		case "def":
			req.Method = "textDocument/definition"
			req.Params = rawParams(map[string]any{"textDocument": map[string]any{"uri": rq.URI}, "position": map[string]any{"line": rq.Line, "character": rq.Char}})
		case "syms":
			req.Method = "textDocument/documentSymbol"
			req.Params = rawParams(map[string]any{"textDocument": map[string]any{"uri": rq.URI}})
		}
		out = captureStdout(func() {
			defer func() {
				if r := recover(); r != nil {
					pan = true
				}
			}()
			ret = lsp.Handle(req, &state)
		})
		if pan {
			obs = append(obs, "LPanic")
			short = append(short, rq.Op+": PANIC")
			panicked = true
			continue
		}
		switch rq.Op {
		case "open", "change":
			// parse the notification(s) written to stdout
			idx := strings.Index(out, "\r\n\r\n")
			term := "LNothing"
			if idx >= 0 {
				var msg struct {
					Method string `json:"method"`
					Params struct {
						URI         string           `json:"uri"`
						Diagnostics []lsp.Diagnostic `json:"diagnostics"`
					} `json:"params"`
				}
				if json.Unmarshal([]byte(out[idx+4:]), &msg) == nil && msg.Method == "textDocument/publishDiagnostics" {
					var ds []string
					for _, d := range msg.Params.Diagnostics {
						pr := parser.Range{Start: parser.Position{Line: int(d.Range.Start.Line), Character: int(d.Range.Start.Character)},
							End: parser.Position{Line: int(d.Range.End.Line), Character: int(d.Range.End.Character)}}
						k, ok := kinds[rq.Tid][key{pr, d.Message}]
						if !ok {
							k = "(DParsing " + coqStr("UNMATCHED (not a diagnostic of the latest text): "+d.Message) + ")"
						}
						sev := "OSevWarning"
						if d.Severity == 1 {
							sev = "OSevError"
						} else if d.Severity != 2 {
							sev = fmt.Sprintf("(OSevOther %d)", int(d.Severity))
						}
						ds = append(ds, fmt.Sprintf("(mkdiag %s %s, %s)", lspRange(d.Range), k, sev))
					}
					term = fmt.Sprintf("(LPublished %s %s)", coqStr(msg.Params.URI), coqList(ds))
				}
			}
			obs = append(obs, term)
			short = append(short, fmt.Sprintf("%s %s t%d", rq.Op, rq.URI, rq.Tid))
		case "hover":
			h, _ := ret.(*lsp.Hover)
			if h == nil {
				obs = append(obs, "LHoverNone")
				short = append(short, "hover: -")
			} else {
				v := h.Contents.Value
				if strings.HasPrefix(v, "```numscript\n$") {
					body := strings.TrimSuffix(strings.TrimPrefix(v, "```numscript\n$"), "\n```")
					parts := strings.SplitN(body, ": ", 2)
					ty := ""
					if len(parts) == 2 {
						ty = parts[1]
					}
					obs = append(obs, fmt.Sprintf("(LHoverVar %s %s %s)", lspRange(h.Range), coqStr(parts[0]), coqStr(ty)))
				} else {
					first := v
					if i := strings.Index(v, "\n\n"); i >= 0 {
						first = v[:i]
					}
					obs = append(obs, fmt.Sprintf("(LHoverFn %s %s)", lspRange(h.Range), coqStr(first)))
				}
				short = append(short, "hover: "+strings.ReplaceAll(v, "\n", " "))
			}
		case "def":
			l, _ := ret.(*lsp.Location)
			if l == nil {
				obs = append(obs, "LDefNone")
				short = append(short, "def: -")
			} else {
				obs = append(obs, fmt.Sprintf("(LDefRange %s %s)", coqStr(string(l.URI)), lspRange(l.Range)))
				short = append(short, "def: "+lspRange(l.Range))
			}
		case "syms":
			ss, _ := ret.([]lsp.DocumentSymbol)
			var xs []string
			for _, s := range ss {
				xs = append(xs, fmt.Sprintf("(mksymbol %s %s %s)", coqStr(s.Name), coqStr(s.Detail), lspRange(s.Range)))
			}
			obs = append(obs, "(LSymbols "+coqList(xs)+")")
			short = append(short, fmt.Sprintf("syms: %d", len(ss)))
		}
	}
	return
}

func coqLspReq(r lspReq) string {
	switch r.Op {
	case "open":
		return fmt.Sprintf("(LOpen %s %d%%nat)", coqStr(r.URI), r.Tid)
	case "change":
		return fmt.Sprintf("(LChange %s %d%%nat)", coqStr(r.URI), r.Tid)
	case "hover":
		return fmt.Sprintf("(LHover %s %d %d)", coqStr(r.URI), r.Line, r.Char)
	case "def":
		return fmt.Sprintf("(LDef %s %d %d)", coqStr(r.URI), r.Line, r.Char)
	}
	return fmt.Sprintf("(LSyms %s)", coqStr(r.URI))
}

func (c *Ctx) lspCase(texts []string, hist []lspReq, group string) {
	obs, short, panicked := runLspHistory(texts, hist)
	var ts, hs []string
	used := map[string]string{}
	for _, t := range texts {
		pr := parseSafe(t)
		tree := dumpProgram(pr.Value)
		if e, ok := expectedOf[t]; ok && len(pr.Errors) == 0 {
			tree = e // what the text means: the generator's tree with the printer's ranges
			used[t] = e
		}
		ts = append(ts, fmt.Sprintf("(%s, %s)", tree, coqParseDiags(pr)))
	}
	for i, r := range hist {
		hs = append(hs, fmt.Sprintf("(%s, %s)", coqLspReq(r), obs[i]))
	}
	ci := &CaseInfo{Kind: "c19case", FailAt: -1, Extra: map[string]any{"texts": texts, "history": hist, "group": group, "expected_trees": used}}
	ci.Class = "ok"
	if panicked {
		ci.Class = "panic"
	}
	if len(short) > 12 {
		short = append(short[:12], fmt.Sprintf("... (%d responses)", len(short)))
	}
	ci.Observed = strings.Join(short, " | ")
	wire, wireDetail := true, ""
	if group == "wire" || group == "replay-wire" {
		wire, wireDetail = wireSame(texts, hist)
		ci.Extra["wire"] = wireDetail
	}
	ci.Coq = fmt.Sprintf("(mk_c19case %s %s %s)", coqList(ts), coqList(hs), coqBool(wire))
	c.add(ci)
}

// expectedOf: the generator's own tree of a text printed from a generated program without token edits
var expectedOf = map[string]string{}

func smallScript(r *Rand, valid bool) string {
	cfg := baseCfg()
	cfg.IllTyped = 0
	cfg.BadAllot = 0
	cfg.MaxStmts = 2
	cfg.MaxDepth = 2
	cfg.CallWeight = 35
	cfg.Origins = true
	cfg.OriginProb = 3
	g := NewGen(r, cfg)
	prog := g.Program()
	if !valid {
		nameEdits(g, prog, r)
	}
	p := &Printer{}
	p.program(prog)
	toks := p.Toks
	edited := false
	if !valid && r.Chance(1, 2) {
		toks, _ = mutateTokens(toks, r)
		edited = true
	}
	text, pos := Render(toks, r.Intn(2), r)
	if !edited {
		if e := expectedOrNone(pos, prog); e != "" {
			expectedOf[text] = e
		}
	}
	return text
}

func init() {
	registry["C19"] = func(c *Ctx) {
		c.group("histories", "c19case", "judge_C19")
		c.shard(20)
		if c.replay != nil {
			var texts []string
			for _, t := range c.replay.Extra["texts"].([]any) {
				texts = append(texts, t.(string))
			}
			var hist []lspReq
			b, _ := json.Marshal(c.replay.Extra["history"])
			json.Unmarshal(b, &hist)
			if m, ok := c.replay.Extra["expected_trees"].(map[string]any); ok {
				for t, e := range m {
					if es, ok := e.(string); ok {
						expectedOf[t] = es
					}
				}
			}
			grp := "replay"
			if g0, _ := c.replay.Extra["group"].(string); g0 == "wire" || g0 == "replay-wire" {
				grp = "replay-wire"
			}
			c.lspCase(texts, hist, grp)
			return
		}
		root := NewRand(c.seed)
		uris := []string{"file:///a.num", "file:///b.num", "file:///c.num"}
		// documents are told apart by their whole URI: same path under another scheme or query, no path at all
		exotic := [][]string{{"untitled:Untitled-1", "untitled:Untitled-2", "untitled:Untitled-3"}, {"file:///a.num", "git:/a.num?ref=main", "file:///a.num?x=1"}, {"file:///d/a.num", "file:///e/a.num", "file:///d/a.num#frag"}}
		n := c.size(60, 3000)
		for i := 0; i < n; i++ {
			r := root.Fork()
			texts := []string{smallScript(r, true), smallScript(r, false), smallScript(r, true), ""}
			if r.Chance(1, 2) {
				texts[3] = smallScript(r, false)
			}
			if i%5 == 2 {
				uris = exotic[(i/5)%len(exotic)]
			} else {
				uris = []string{"file:///a.num", "file:///b.num", "file:///c.num"}
			}
			m := 3 + r.Intn(30)
			var hist []lspReq
			for j := 0; j < m; j++ {
				u := uris[r.Weighted(50, 35, 15)]
				switch r.Weighted(20, 20, 25, 20, 15) {
				case 0:
					hist = append(hist, lspReq{Op: "open", URI: u, Tid: r.Intn(len(texts))})
				case 1:
					hist = append(hist, lspReq{Op: "change", URI: u, Tid: r.Intn(len(texts))})
				case 2:
					hist = append(hist, lspReq{Op: "hover", URI: u, Line: r.Intn(4), Char: r.Intn(60)})
				case 3:
					hist = append(hist, lspReq{Op: "def", URI: u, Line: r.Intn(4), Char: r.Intn(60)})
				default:
					hist = append(hist, lspReq{Op: "syms", URI: u})
				}
			}
			if i%8 == 3 {
				// the same history also through the real server process (framing, decoding, the loop of server.go)
				c.lspCase(texts, hist, "wire")
				c.count("wire_histories")
			} else {
				c.lspCase(texts, hist, "history")
			}
		}
		if c.tier == "thorough" {
			// exhaustive short histories over a small alphabet: 2 URIs x 2 texts, one position
			r := root.Fork()
			texts := []string{smallScript(r, true), smallScript(r, false)}
			var alpha []lspReq
			for _, u := range uris[:2] {
				for t := 0; t < 2; t++ {
					alpha = append(alpha, lspReq{Op: "open", URI: u, Tid: t}, lspReq{Op: "change", URI: u, Tid: t})
				}
				alpha = append(alpha, lspReq{Op: "hover", URI: u, Line: 0, Char: 12}, lspReq{Op: "def", URI: u, Line: 1, Char: 8}, lspReq{Op: "syms", URI: u})
			}
			count := 0
			var rec func(h []lspReq, depth int)
			rec = func(h []lspReq, depth int) {
				if depth == 0 {
					c.lspCase(texts, append([]lspReq{}, h...), "exhaustive")
					count++
					return
				}
				for _, a := range alpha {
					rec(append(h, a), depth-1)
				}
			}
			for d := 1; d <= 3; d++ {
				rec(nil, d)
			}
			c.stats["exhaustive_histories"] = count
		}
		// navigation: one document, every position
		c.group("navigation", "c19case", "judge_C19")
		c.shard(4)
		nn := c.size(40, 1500)
		for i := 0; i < nn; i++ {
			r := root.Fork()
			text := smallScript(r, i%3 == 2)
			if i == 0 {
				text = kitchenSink
			}
			u := uris[0]
			hist := []lspReq{{Op: "open", URI: u, Tid: 0}}
			for l, n := range lineLengths(text) {
				for ch := 0; ch <= n+1; ch++ {
					hist = append(hist, lspReq{Op: "hover", URI: u, Line: l, Char: ch}, lspReq{Op: "def", URI: u, Line: l, Char: ch})
				}
			}
			c.lspCase([]string{text}, hist, "navigation")
			c.count("navigation_positions:" + fmt.Sprint(len(hist)/200*200))
		}
		// navigation in TWO open documents (and one that was never opened), position by position, alternating: an
		// answer is about the document named in the request, whatever was asked just before about another one
		for i := 0; i < c.size(8, 300); i++ {
			r := root.Fork()
			ta, tb := smallScript(r, true), smallScript(r, i%2 == 0)
			a, b, never := uris[0], uris[1], "file:///never-opened.num"
			hist := []lspReq{{Op: "open", URI: a, Tid: 0}, {Op: "open", URI: b, Tid: 1}}
			la, lb := lineLengths(ta), lineLengths(tb)
			for l := 0; l < len(la) || l < len(lb); l++ {
				n := 0
				if l < len(la) {
					n = la[l]
				}
				if l < len(lb) && lb[l] > n {
					n = lb[l]
				}
				for ch := 0; ch <= n; ch++ {
					hist = append(hist, lspReq{Op: "hover", URI: a, Line: l, Char: ch}, lspReq{Op: "hover", URI: b, Line: l, Char: ch},
						lspReq{Op: "def", URI: b, Line: l, Char: ch}, lspReq{Op: "def", URI: a, Line: l, Char: ch})
					if ch%7 == 3 {
						hist = append(hist, lspReq{Op: "hover", URI: never, Line: l, Char: ch}, lspReq{Op: "def", URI: never, Line: l, Char: ch})
					}
				}
			}
			c.lspCase([]string{ta, tb}, hist, "navigation")
			c.count("navigation_two_documents")
		}
	}
}
