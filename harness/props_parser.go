package main

import (
	"fmt"
	"strings"

	"github.com/antlr4-go/antlr/v4"
	"github.com/formancehq/numscript"
	"github.com/formancehq/numscript/internal/parser"
	antlrParser "github.com/formancehq/numscript/internal/parser/antlr"
)

func coqCodePoints(text string) string {
	var xs []string
	for _, r := range []rune(text) {
		xs = append(xs, fmt.Sprint(int(r)))
	}
	return coqList(xs)
}

func coqByteLineLengths(text string) string {
	var xs []string
	for _, l := range strings.Split(text, "\n") {
		xs = append(xs, fmt.Sprint(len(l)))
	}
	return coqList(xs)
}

func coqLineLengths(text string) string {
	var xs []string
	for _, n := range lineLengths(text) {
		xs = append(xs, fmt.Sprint(n))
	}
	return coqList(xs)
}

type parseObs struct {
	panic_   string
	res      parser.ParseResult
	rendered bool
}

func runParse(text string) (o parseObs) {
	defer func() {
		if r := recover(); r != nil {
			o.panic_ = fmt.Sprint(r)
		}
	}()
	p := numscript.Parse(text)
	errs := p.GetParsingErrors()
	o.res = parser.Parse(text)
	o.res.Errors = errs
	o.rendered = func() (ok bool) {
		defer func() {
			if recover() != nil {
				ok = false
			}
		}()
		_ = numscript.ParseErrorsToString(errs, text)
		return true
	}()
	return
}

func coqParseObs(o parseObs) string {
	if o.panic_ != "" {
		return "(PPanic " + coqStr(o.panic_) + ")"
	}
	var es []string
	for _, e := range o.res.Errors {
		es = append(es, fmt.Sprintf("(%s, %s)", coqRange(e.Range), coqStr(e.Msg)))
	}
	return fmt.Sprintf("(PObs %s %s)", coqList(es), coqBool(o.rendered))
}

func (c *Ctx) parserCase(text string, genValid bool, edit string) {
	o := runParse(text)
	known := knownSignature(text)
	emit := func(waive bool, knownTag string) {
		tree := "(mkprogram [] [])"
		if o.panic_ == "" {
			tree = dumpProgram(o.res.Value)
		}
		ci := &CaseInfo{Kind: "c14case", Text: text, FailAt: -1, Extra: map[string]any{"edit": edit, "gen_valid": genValid, "waive_acceptance": waive}}
		ci.Class = "errors"
		if o.panic_ != "" {
			ci.Class = "panic"
			ci.Observed = "panic: " + o.panic_
		} else {
			if len(o.res.Errors) == 0 {
				ci.Class = "accepted"
			}
			var ms []string
			for _, e := range o.res.Errors {
				ms = append(ms, fmt.Sprintf("%d:%d %s", e.Range.Start.Line, e.Range.Start.Character, e.Msg))
			}
			ci.Observed = fmt.Sprintf("%d errors: %s | rendering ok: %v", len(o.res.Errors), strings.Join(ms, "; "), o.rendered)
		}
		ci.Known = knownTag
		ci.Coq = fmt.Sprintf("(mk_c14case %s %s %s %s %s %s %s)", coqCodePoints(text), coqLineLengths(text), coqByteLineLengths(text), coqBool(genValid), coqBool(waive), tree, coqParseObs(o))
		c.add(ci)
	}
	if known != "" {
		// an input matching the signature of a recorded finding: once in full (a failure is the known
		// finding), once with ONLY the acceptance requirement waived (any other failure is a violation)
		emit(false, known)
		emit(true, "")
		c.count("known_signature:" + known)
		return
	}
	emit(false, "")
}

func byteMutate(text string, r *Rand) (string, string) {
	rs := []rune(text)
	if len(rs) == 0 {
		return "#", "byte-insert"
	}
	switch r.Intn(5) {
	case 0:
		return string(rs[:r.Intn(len(rs)+1)]), "truncate"
	case 1:
		i := r.Intn(len(rs))
		return string(append(rs[:i:i], rs[i+1:]...)), "byte-delete"
	case 2:
		i := r.Intn(len(rs) + 1)
		ins := []rune(r.Pick([]string{"#", ";", ":", "é", "'", "\"", "%", ".", "/", "*", "!", "?", "\\", "\n", "\r", "\t", "$", "@", "0", "9", "A", "z", "_", "-", "+", "/*", "*/", "//", "日", "😀"}))
		return string(append(rs[:i:i], append(ins, rs[i:]...)...)), "byte-insert"
	case 3:
		i := r.Intn(len(rs))
		rs[i] = []rune(r.Pick([]string{"#", "X", "x", "0", " ", "\"", "é", "{", ")", "%"}))[0]
		return string(rs), "byte-replace"
	default:
		i := r.Intn(len(rs))
		j := i + r.Intn(8)
		if j > len(rs) {
			j = len(rs)
		}
		return string(append(rs[:i:i], rs[j:]...)), "byte-delete-run"
	}
}

// grammarScript generates a grammar-complete script (every alternative, nesting, all literal kinds)
func grammarScript(r *Rand, depth int) (*Gen, *GProgram) {
	cfg := baseCfg()
	cfg.IllTyped = 150 // syntax does not care about types: any expression anywhere
	cfg.BadAllot = 200
	cfg.MaxStmts = 4
	cfg.MaxDepth = depth
	cfg.CallWeight = 30
	cfg.Origins = true
	cfg.OriginProb = 3
	cfg.SendAll = 250
	cfg.NumberSpellings = true
	g := NewGen(r, cfg)
	return g, g.Program()
}

func init() {
	registry["C14"] = func(c *Ctx) {
		c.group("texts", "c14case", "judge_C14")
		c.shard(60)
		if c.replay != nil {
			gv, _ := c.replay.Extra["gen_valid"].(bool)
			c.parserCase(c.replay.Text, gv, "replay")
			return
		}
		// corpus: inputs that crashed the pinned tree, and the witness of the recorded finding
		for _, t := range []string{"send [USD 99999999999999999999999] (source=@world destination=@a)", "send [USD 1] (source = @a destination = {08% to @a remaining to @b})",
			"send [USD 1] (source=@a destination=@b)\nset_tx_meta(\"k\", -9223372036854775809)", "", " ", "// c", "/* a", "\"", "@", "$", "send", "vars {", "set_tx_meta(\"é\", 1) #"} {
			c.parserCase(t, false, "corpus")
		}
		root := NewRand(c.seed)
		n := c.size(420, 30000)
		for i := 0; i < n; i++ {
			r := root.Fork()
			depth := 2 + r.Intn(2)
			if c.tier == "thorough" {
				depth = 2 + r.Intn(4)
			}
			_, prog := grammarScript(r, depth)
			p := &Printer{}
			p.program(prog)
			toks := p.Toks
			edit := "none"
			text := ""
			switch {
			case i%12 == 7:
				// a numeral that does not fit in an int, often on the last line
				text, _ = Render(toks, r.Intn(2), r)
				huge := r.Pick([]string{"9223372036854775808", "-9223372036854775809", "99999999999999999999", "340282366920938463463374607431768211456"})
				if r.Chance(1, 2) {
					text = strings.TrimRight(text, " \t\r\n") + "\nset_tx_meta(\"k\", " + huge + ")"
				} else {
					text = "set_tx_meta(\"é\", " + huge + ")\n" + text
				}
				edit = "huge-numeral"
			case i%5 == 0:
				text, _ = Render(toks, 1, r)
			case i%5 <= 2:
				toks, edit = mutateTokens(toks, r)
				text, _ = Render(toks, r.Intn(2), r)
			default:
				text, _ = Render(toks, r.Intn(2), r)
				text, edit = byteMutate(text, r)
				if r.Chance(1, 3) {
					var e2 string
					text, e2 = byteMutate(text, r)
					edit += "+" + e2
				}
			}
			c.parserCase(text, edit == "none", edit)
			c.count("edit:" + strings.Split(edit, "+")[0])
		}
		if c.tier == "thorough" {
			// truncation at every offset of a few scripts
			for k := 0; k < 12; k++ {
				r := root.Fork()
				_, prog := grammarScript(r, 3)
				text := renderProgram(prog, k%2, r)
				rs := []rune(text)
				for i := 0; i <= len(rs); i++ {
					c.parserCase(string(rs[:i]), i == len(rs), "truncate-every-offset")
				}
			}
		}
	}

	registry["C15"] = func(c *Ctx) {
		c.group("scripts", "c15case", "judge_C15")
		c.shard(50)
		root := NewRand(c.seed)
		n := c.size(300, 20000)
		if c.replay != nil {
			n = 1
		}
		for i := 0; i < n; i++ {
			r := root.Fork()
			if c.replay != nil {
				r = &Rand{s: uint64(c.replay.Extra["gen_seed"].(float64))}
			}
			seed := r.s
			depth := 2 + r.Intn(2)
			if c.tier == "thorough" {
				depth = 2 + r.Intn(4)
			}
			_, prog := grammarScript(r, depth)
			p := &Printer{}
			p.program(prog)
			for layout := 0; layout < 3; layout++ {
				if layout == 2 && i%2 == 1 {
					continue // the tight layout (no blank where the lexer needs none) for every other script
				}
				text, pos := Render(p.Toks, layout, r)
				o := runParse(text)
				parsed := "(mkprogram [] [])"
				nerr := 0
				if o.panic_ == "" {
					parsed = dumpProgram(o.res.Value)
					nerr = len(o.res.Errors)
				} else {
					nerr = 999
				}
				ci := &CaseInfo{Kind: "c15case", Text: text, FailAt: -1, Extra: map[string]any{"gen_seed": seed, "layout": layout}}
				ci.Class = "accepted"
				if nerr > 0 {
					ci.Class = "errors"
				}
				ci.Observed = fmt.Sprintf("%d errors", nerr)
				if o.panic_ != "" {
					ci.Observed = "panic: " + o.panic_
				}
				ci.Coq = fmt.Sprintf("(mk_c15case %s %s %s %d%%nat)", coqCodePoints(text), gd{pos, nil}.program(prog), parsed, nerr)
				if k := knownSignature(text); k != "" {
					ci.Known = k
				}
				c.add(ci)
			}
		}
	}
}

// ---- token level: the generated ANTLR lexer run alone ----

type lexErrCollector struct {
	*antlr.DefaultErrorListener
	errs [][2]int
}

func (l *lexErrCollector) SyntaxError(recognizer antlr.Recognizer, offendingSymbol interface{}, line, column int, msg string, e antlr.RecognitionException) {
	l.errs = append(l.errs, [2]int{line - 1, column})
}

func coqCps(s string) string {
	var xs []string
	for _, r := range []rune(s) {
		xs = append(xs, fmt.Sprint(int(r)))
	}
	return coqList(xs)
}

func (c *Ctx) tokenCase(text string, origin string) {
	lexer := antlrParser.NewNumscriptLexer(antlr.NewInputStream(text))
	lexer.RemoveErrorListeners()
	col := &lexErrCollector{}
	lexer.AddErrorListener(col)
	var toks []string
	n := 0
	for {
		tk := lexer.NextToken()
		if tk.GetTokenType() == antlr.TokenEOF {
			break
		}
		name := ""
		if tt := tk.GetTokenType(); tt >= 0 && tt < len(lexer.SymbolicNames) {
			name = lexer.SymbolicNames[tt]
		}
		if name == "" {
			name = "PLUS" // the only implicit literal token of the grammar
		}
		toks = append(toks, fmt.Sprintf("(%s, %s, %d, %d)", coqStr(name), coqCps(tk.GetText()), tk.GetLine()-1, tk.GetColumn()))
		n++
	}
	var errs []string
	for _, e := range col.errs {
		errs = append(errs, fmt.Sprintf("(%d, %d)", e[0], e[1]))
	}
	ci := &CaseInfo{Kind: "tokcase", Text: text, FailAt: -1, Extra: map[string]any{"origin": origin}}
	ci.Class = "tokens"
	if len(errs) > 0 {
		ci.Class = "lexical-errors"
	}
	ci.Observed = fmt.Sprintf("%d tokens, %d lexical errors", n, len(errs))
	ci.Coq = fmt.Sprintf("(mk_tokcase %s %s %s)", coqCodePoints(text), coqList(toks), coqList(errs))
	c.add(ci)
	c.count("tokens:" + origin)
}

// lexerStress: short strings over the characters the lexer rules discriminate on
func lexerStress(r *Rand) string {
	alphabet := []string{"/", "*", "/*", "*/", "//", "\"", "\\", "\\\"", "\n", "\r", " ", "\t", "0", "1", "9", "%", ".", "/ ", " /", "@", ":", "$", "_", "-", "+", "a", "z", "A", "Z", "é", "😀", "{", "max", "to", "tokept", "USD", "USD/2", "1/2", "50%", "1.5%", "@a:b", "$x1", "#"}
	n := 1 + r.Intn(10)
	var sb strings.Builder
	for i := 0; i < n; i++ {
		sb.WriteString(r.Pick(alphabet))
	}
	return sb.String()
}

func init() {
	prev := registry["C15"]
	registry["C15"] = func(c *Ctx) {
		prev(c)
		if c.replay != nil && c.replay.Kind != "tokcase" {
			return
		}
		c.group("tokens", "tokcase", "judge_C15_tokens")
		c.shard(100)
		if c.replay != nil {
			c.tokenCase(c.replay.Text, "replay")
			return
		}
		root := NewRand(c.seed + 101)
		n := c.size(200, 20000)
		for i := 0; i < n; i++ {
			r := root.Fork()
			switch i % 4 {
			case 0:
				c.tokenCase(lexerStress(r), "stress")
			case 1:
				_, prog := grammarScript(r, 2)
				c.tokenCase(renderProgram(prog, 1, r), "script")
			default:
				_, prog := grammarScript(r, 2)
				text := renderProgram(prog, r.Intn(2), r)
				text, _ = byteMutate(text, r)
				if r.Chance(1, 2) {
					text, _ = byteMutate(text, r)
				}
				c.tokenCase(text, "mutated")
			}
		}
	}
}
