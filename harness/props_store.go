package main

import (
	"context"
	"fmt"
	"math/big"
	"os"
	"os/exec"
	"strings"
	"sync"

	"github.com/formancehq/numscript"
	"github.com/formancehq/numscript/internal/interpreter"
)

func renderProgram(prog *GProgram, layout int, r *Rand) string {
	p := &Printer{}
	p.program(prog)
	text, _ := Render(p.Toks, layout, r)
	return text
}

// saveVisible mirrors the SPECIFICATION of save (Spec/Ledger.save_visible), for the harness's own
// bookkeeping of the visible balances between the two halves of a split execution.
func saveVisible(v *big.Int, n *big.Int) *big.Int {
	if n == nil {
		if v.Sign() > 0 {
			return new(big.Int)
		}
		return new(big.Int).Set(v)
	}
	if v.Sign() <= 0 {
		return new(big.Int).Set(v)
	}
	d := new(big.Int).Sub(v, n)
	if d.Sign() < 0 {
		d.SetInt64(0)
	}
	return d
}

// litSave: the account, asset and amount of a save written with literals, or with a monetary variable
// whose text is in vars ("USD 12")
func litSave(s *GStmt, vars map[string]string) (acct, asset string, n *big.Int, ok bool) {
	if s.Kind != StSave || s.Acct.Kind != XAccount {
		return
	}
	if !s.Sent.All && s.Sent.E.Kind == XVar {
		fs := strings.Fields(vars[s.Sent.E.S])
		if len(fs) != 2 {
			return
		}
		v, good := new(big.Int).SetString(fs[1], 10)
		if !good || v.Sign() < 0 {
			return
		}
		return s.Acct.S, fs[0], v, true
	}
	if s.Sent.All {
		if s.Sent.E.Kind != XAsset {
			return
		}
		return s.Acct.S, s.Sent.E.S, nil, true
	}
	e := s.Sent.E
	if e.Kind != XMonetary || e.A.Kind != XAsset || e.B.Kind != XNumber {
		return
	}
	return s.Acct.S, e.A.S, e.B.N, true
}

func coqOptBalances(b numscript.Balances) string {
	if b == nil {
		return "None"
	}
	return "(Some " + coqBalances(b) + ")"
}

func init() {
	// ------------------------------------------------------------------------------------ C09
	registry["C09"] = func(c *Ctx) {
		c.group("splits", "splitcase", "judge_C09")
		root := NewRand(c.seed)
		n := c.size(110, 5000)
		if c.replay != nil {
			n = 1
		}
		for i := 0; i < n; i++ {
			r := root.Fork()
			cfg := baseCfg()
			cfg.Origins = false
			cfg.IllTyped = 2
			cfg.BadAllot = 10
			cfg.MaxStmts = 5
			cfg.LiteralSaves = true
			if i%3 == 0 {
				cfg.CallWeight = 90
				cfg.MaxStmts = 6
			}
			cfg.SmallPool = i%2 == 0
			cfg.WorldProb = 100
			var g *Gen
			var prog *GProgram
			var k int
			if c.replay != nil {
				// replay: the case carries the generator seed and the split point
				seed := uint64(c.replay.Extra["gen_seed"].(float64))
				r = &Rand{s: seed}
				k = int(c.replay.Extra["k"].(float64))
				cfg.SmallPool = c.replay.Extra["small_pool"].(bool)
			}
			genSeed := r.s
			g = NewGen(r, cfg)
			directed := i%5 == 4
			directedKind := ""
			if directed {
				directedKind = "meta"
			} else if i%5 == 2 {
				directed, directedKind = true, "unbounded"
			} else if i%5 == 1 {
				directed, directedKind = true, "overdraftTwice"
			} else if i%5 == 3 {
				directed, directedKind = true, "effectsCarry"
			}
			if c.replay != nil {
				directed, _ = c.replay.Extra["directed"].(bool)
				directedKind, _ = c.replay.Extra["directed_kind"].(string)
				if directed && directedKind == "" {
					directedKind = "meta"
				}
			}
			if c.replay == nil && !directed && i%20 == 10 {
				directed, directedKind = true, "capVarReuse"
			}
			if c.replay == nil && directedKind == "meta" && i%10 == 9 {
				directedKind = "metaRead"
			}
			if c.replay == nil && directedKind == "overdraftTwice" && i%20 == 11 {
				directedKind = "sweepDebt"
			}
			if c.replay == nil && directedKind == "unbounded" && i%20 == 7 {
				directedKind = []string{"varReuse0", "varReuse1", "varReuse2", "varReuse3"}[(i/20)%4]
			}
			switch directedKind {
			case "capVarReuse":
				prog = g.capVarReuseProgram(false)
			case "sweepDebt":
				prog = g.sweepDebtProgram()
			case "metaRead":
				prog = g.metaReadThenWriteProgram()
			case "varReuse0":
				prog = g.varReuseProgram(0, true)
			case "varReuse1":
				prog = g.varReuseProgram(1, true)
			case "varReuse2":
				prog = g.varReuseProgram(2, true)
			case "varReuse3":
				prog = g.varReuseProgram(3, true)
			case "meta":
				prog = g.metaOverrideProgram()
			case "unbounded":
				// an account drawn with unbounded overdraft (its balance is not requested), then read
				prog = g.unboundedThenBoundedProgram()
			case "overdraftTwice":
				prog = g.overdraftTwiceProgram()
			case "effectsCarry":
				prog = g.effectsCarryProgram()
			default:
				prog = g.Program()
			}
			for len(prog.Stmts) < 2 {
				prog.Stmts = append(prog.Stmts, g.sendStmt())
			}
			sc := scenarioFromGen(g, prog, 0, r)
			// the store behaviour varies: an account whose balance is absent is answered with an explicit
			// zero (exact), left out (sparse), or not listed at all (static)
			sc.Kind = []storeKind{skExact, skSparse, skStatic}[i%3]
			if c.replay != nil {
				if kk, ok := c.replay.Extra["store_kind"].(float64); ok {
					sc.Kind = storeKind(int(kk))
				}
			}
			whole, _ := sc.run()
			ks := []int{}
			for kk := 1; kk < len(prog.Stmts); kk++ {
				ks = append(ks, kk)
			}
			if c.replay != nil {
				ks = []int{k}
			}
			for _, k := range ks {
				first := sc
				first.Text = renderProgram(&GProgram{Vars: prog.Vars, Stmts: prog.Stmts[:k]}, 0, r)
				o1, _ := first.run()
				var bal2 numscript.Balances
				var o2 *Outcome
				if o1.Class == "ok" {
					// visible balances after the first part: postings statement by statement (from
					// prefix executions of the implementation) and save reservations (specification)
					vis := deepCopyBalances(sc.Bal)
					get := func(a, x string) *big.Int {
						if vis[a] == nil {
							vis[a] = numscript.AccountBalance{}
						}
						if vis[a][x] == nil {
							vis[a][x] = new(big.Int)
						}
						return vis[a][x]
					}
					prev := 0
					usable := true
					for j := 1; j <= k && usable; j++ {
						st := prog.Stmts[j-1]
						switch st.Kind {
						case StSend:
							pre := sc
							pre.Text = renderProgram(&GProgram{Vars: prog.Vars, Stmts: prog.Stmts[:j]}, 0, r)
							oj, _ := pre.run()
							if oj.Class != "ok" {
								usable = false
								break
							}
							for _, p := range oj.Res.Postings[prev:] {
								get(p.Source, p.Asset).Sub(get(p.Source, p.Asset), p.Amount)
								get(p.Destination, p.Asset).Add(get(p.Destination, p.Asset), p.Amount)
							}
							prev = len(oj.Res.Postings)
						case StSave:
							a, x, n, ok := litSave(st, sc.Vars)
							if !ok {
								usable = false
								break
							}
							cur := get(a, x)
							vis[a][x] = saveVisible(cur, n)
						}
					}
					if usable {
						bal2 = vis
						second := sc
						second.Bal = vis
						second.Text = renderProgram(&GProgram{Vars: prog.Vars, Stmts: prog.Stmts[k:]}, 0, r)
						oo, _ := second.run()
						o2 = &oo
					}
				}
				pr := parseSafe(sc.Text)
				sec := "None"
				if o2 != nil {
					sec = "(Some " + coqObserved(*o2, nil) + ")"
				}
				ci := sc.info("splitcase")
				ci.extra(map[string]any{"k": k, "gen_seed": genSeed, "small_pool": cfg.SmallPool, "directed": directed, "directed_kind": directedKind, "store_kind": int(sc.Kind), "first": shortObserved(o1)})
				if o2 != nil {
					ci.Extra["second"] = shortObserved(*o2)
				}
				ci.Class = whole.Class
				ci.Observed = shortObserved(whole)
				ci.Coq = fmt.Sprintf("(mk_splitcase %s %d%%nat %s %s %s %s %s %s %s %s)", sc.treeOf(pr), k, coqVars(sc.Vars),
					coqBalances(sc.Bal), coqMeta(sc.Meta), coqBool(sc.Flag), coqObserved(whole, nil), coqObserved(o1, nil), coqOptBalances(bal2), sec)
				c.add(ci)
			}
		}
	}

	// ------------------------------------------------------------------------------------ C10
	registry["C10"] = func(c *Ctx) {
		c.group("stores", "c10case", "judge_C10")
		root := NewRand(c.seed)
		n := c.size(150, 6000)
		if c.replay != nil {
			n = 1
		}
		for i := 0; i < n; i++ {
			r := root.Fork()
			cfg := baseCfg()
			cfg.Origins = true
			cfg.IllTyped = 2
			cfg.BadAllot = 10
			cfg.MaxStmts = 4
			cfg.OriginProb = 2
			cfg.SmallPool = i%3 == 0
			var sc Scenario
			if c.replay != nil {
				sc = scenarioFromInfo(c.replay)
			} else {
				g := NewGen(r, cfg)
				var prog *GProgram
				if i%6 == 5 {
					prog = g.unboundedThenBoundedProgram()
					c.count("directed:unboundedThenBounded")
				} else if i%6 == 2 {
					prog = g.worldBalanceProgram()
					c.count("directed:worldBalance")
				} else if i%6 == 3 {
					prog = g.twoAssetsProgram()
					c.count("directed:twoAssets")
				} else if i%12 == 1 {
					prog = g.zeroShareProgram()
					c.count("directed:zeroShare")
				} else if i%12 == 7 {
					prog = g.saveAllDebtProgram()
					c.count("directed:saveAllDebt")
				} else if i%12 == 10 {
					prog = g.cappedWorldThenProgram()
					c.count("directed:cappedWorldThen")
				} else if i%12 == 4 {
					prog = g.zeroTwinsProgram()
					c.count("directed:zeroTwins")
				} else {
					prog = g.Program()
				}
				sc = scenarioFromGen(g, prog, 0, r)
			}
			var obs []string
			class := ""
			short := ""
			for k := skStatic; k <= skPoison; k++ {
				s := sc
				s.Kind = k
				o, log := s.run()
				obs = append(obs, fmt.Sprintf("(%s, %s)", storeKindCoq[k], coqObserved(o, log)))
				if k == skExact {
					class = o.Class
				}
				short += storeKindCoq[k] + ": " + shortObserved(o) + " | "
			}
			pr := parseSafe(sc.Text)
			ci := sc.info("c10case")
			ci.Class = class
			ci.Observed = short
			ci.Coq = fmt.Sprintf("(mk_c10case %s %s %s %s %s %s)", sc.treeOf(pr), coqVars(sc.Vars), coqBalances(sc.Bal), coqMeta(sc.Meta), coqBool(sc.Flag), coqList(obs))
			c.add(ci)
		}
	}

	// ------------------------------------------------------------------------------------ C11
	registry["C11"] = func(c *Ctx) {
		c.group("runs", "c11case", "judge_C11")
		if rc := os.Getenv("VERIF_C11_RACECASE"); rc != "" {
			// child process of the race build: run the concurrent part of one case and exit
			return
		}
		root := NewRand(c.seed)
		n := c.size(150, 1500)
		if c.replay != nil {
			n = 1
		}
		for i := 0; i < n; i++ {
			r := root.Fork()
			cfg := baseCfg()
			cfg.IllTyped = 2
			cfg.BadAllot = 10
			cfg.Origins = i%2 == 0
			cfg.OriginProb = 2
			if i%5 == 3 {
				cfg.Garbage = 500 // several variables hold texts that do not read: which one is reported must not vary
				cfg.Hostile = 300
			}
			var sc Scenario
			if c.replay != nil {
				sc = scenarioFromInfo(c.replay)
			} else {
				g := NewGen(r, cfg)
				var prog *GProgram
				switch i % 6 {
				case 1:
					prog = g.overdraftOriginProgram()
					c.count("directed:overdraftOrigin")
				case 4:
					prog = g.twoAssetsProgram()
					c.count("directed:twoAssets")
				default:
					prog = g.Program()
				}
				if i%3 == 0 {
					// an account the script reads is not listed by the store at all
					for _, a := range []string{"a", "b", "c", "users:001"} {
						if _, ok := g.bal[a]; ok && r.Chance(1, 2) {
							delete(g.bal, a)
						}
					}
				}
				sc = scenarioFromGen(g, prog, 0, r)
			}
			sc.Kind = skStatic
			c.c11Case(sc)
		}
	}
}

func outcomeEqual(a, b Outcome) (eq bool) {
	// a result corrupted by a concurrent writer can make big.Int.String panic: that is a difference
	defer func() {
		if recover() != nil {
			eq = false
		}
	}()
	if a.Class != b.Class {
		return false
	}
	if a.Class != "ok" {
		return true
	}
	return coqObserved(a, nil) == coqObserved(b, nil)
}

func runParsed(p numscript.ParseResult, vars map[string]string, st numscript.Store, flag bool) (out Outcome) {
	defer func() {
		if r := recover(); r != nil {
			out = Outcome{Class: "panic", PanicText: fmt.Sprint(r)}
		}
	}()
	var flags map[string]struct{}
	if flag {
		flags = map[string]struct{}{interpreter.ExperimentalOverdraftFunctionFeatureFlag: {}}
	}
	res, err := p.RunWithFeatureFlags(context.Background(), vars, st, flags)
	if err != nil {
		name := fmt.Sprintf("%T", err)
		name = name[strings.LastIndex(name, ".")+1:]
		return Outcome{Class: name, Msg: func() (m string) {
			defer func() {
				if recover() != nil {
					m = "<Error() panicked>"
				}
			}()
			return err.Error()
		}(), Res: res, ResEmpty: res.Postings == nil && res.Metadata == nil && res.AccountsMetadata == nil}
	}
	return Outcome{Class: "ok", Res: res}
}

func (c *Ctx) c11Case(sc Scenario) {
	// the caller's own maps go to the bundled StaticStore, uncopied: this is what a user does
	bal := deepCopyBalances(sc.Bal)
	meta := deepCopyMeta(sc.Meta)
	vars := map[string]string{}
	for k, v := range sc.Vars {
		vars[k] = v
	}
	store := numscript.StaticStore{Balances: bal, Meta: meta}
	logged := newStore(skStatic, bal, meta, -1) // same maps, logging wrapper around the static store
	p := numscript.Parse(sc.Text)
	// the parsed program is an input too: a run must leave the tree as it found it (literals included)
	treeSame := func() (same bool) {
		defer func() {
			if recover() != nil {
				same = true // a crash is judged elsewhere
			}
		}()
		pr := parseSafe(sc.Text)
		if len(pr.Errors) != 0 {
			return true
		}
		before := dumpProgram(pr.Value)
		var flags map[string]struct{}
		if sc.Flag {
			flags = map[string]struct{}{interpreter.ExperimentalOverdraftFunctionFeatureFlag: {}}
		}
		v2 := map[string]string{}
		for k, v := range sc.Vars {
			v2[k] = v
		}
		interpreter.RunProgram(context.Background(), pr.Value, v2, numscript.StaticStore{Balances: deepCopyBalances(sc.Bal), Meta: deepCopyMeta(sc.Meta)}, flags)
		return dumpProgram(pr.Value) == before
	}()
	if len(sc.Text)%2 == 0 {
		// one case in two: the parsed program has already been run, with OTHER values in its variables (other
		// amounts, other assets) and another store: a run depends on its own inputs only
		warm := map[string]string{}
		for k, v := range sc.Vars {
			warm[k] = perturbVar(v)
		}
		runParsed(p, warm, numscript.StaticStore{Balances: deepCopyBalances(sc.Bal), Meta: deepCopyMeta(sc.Meta)}, sc.Flag)
		c.count("warmed_up_with_other_variables")
	}
	o1 := runParsed(p, vars, logged, sc.Flag)
	unchanged := balancesEqual(bal, sc.Bal) && metaEqual(meta, sc.Meta) && len(vars) == len(sc.Vars) && treeSame
	for k, v := range sc.Vars {
		if vars[k] != v {
			unchanged = false
		}
	}
	o2 := runParsed(p, vars, store, sc.Flag)
	// the same inputs again, a few more times: the FIRST run that differs from o1 - outcome, postings, error
	// message (an error chosen by ranging over a Go map changes from run to run) - is the one reported
	for k := 0; k < 6 && o2.Class == o1.Class && o2.Msg == o1.Msg; k++ {
		o3 := runParsed(p, vars, numscript.StaticStore{Balances: bal, Meta: meta}, sc.Flag)
		if o3.Class != o1.Class || o3.Msg != o1.Msg {
			o2 = o3
		}
	}
	unchanged = unchanged && balancesEqual(bal, sc.Bal) && metaEqual(meta, sc.Meta)
	// ... and a run of a FRESH parse of the same text on copies of the same inputs: what a parse result has been
	// through makes no difference
	if fresh := runParsed(numscript.Parse(sc.Text), sc.Vars, numscript.StaticStore{Balances: deepCopyBalances(sc.Bal), Meta: deepCopyMeta(sc.Meta)}, sc.Flag); o2.Class == o1.Class && o2.Msg == o1.Msg && !outcomeEqual(fresh, o1) {
		o2 = fresh
	}
	// feature flag on / off, on fresh copies
	on := runParsed(p, vars, numscript.StaticStore{Balances: deepCopyBalances(sc.Bal), Meta: deepCopyMeta(sc.Meta)}, true)
	off := runParsed(p, vars, numscript.StaticStore{Balances: deepCopyBalances(sc.Bal), Meta: deepCopyMeta(sc.Meta)}, false)
	usesFn := strings.Contains(sc.Text, "overdraft (") || strings.Contains(sc.Text, "overdraft(")
	// concurrency: goroutines sharing one parse result and one store (fresh parse so that lazily
	// initialised package state is first touched concurrently)
	same := true
	raceFree := true
	if !unchanged {
		// the run writes into the maps it was given: sharing them between goroutines would be a data
		// race that kills the process (Go's "concurrent map writes"); the case already fails on inputs_unchanged
		c.count("concurrency_skipped_inputs_modified")
	} else if os.Getenv("VERIF_RACE_CHILD") == "1" || !raceBuild {
		same = concurrentSame(sc)
	} else {
		// race build: run the concurrent part in a child process so that a report can be attributed
		same, raceFree = raceChild(sc)
	}
	ci := sc.info("c11case")
	ci.Class = o1.Class
	ci.Observed = shortObserved(o1)
	ci.extra(map[string]any{"second_run": shortObserved(o2), "inputs_unchanged": unchanged, "flag_on": shortObserved(on), "flag_off": shortObserved(off),
		"concurrent_same": same, "race_free": raceFree})
	pr := parseSafe(sc.Text)
	ic := fmt.Sprintf("(mk_icase %s %s %s %s SKStatic None %s %s)", sc.treeOf(pr), coqVars(sc.Vars), coqBalances(sc.Bal), coqMeta(sc.Meta), coqBool(sc.Flag), coqObserved(o1, logged.log))
	ci.Coq = fmt.Sprintf("(mk_c11case %s %s %s %s %s %s %s %s)", ic, coqObserved(o2, nil), coqBool(unchanged), coqObserved(on, nil), coqObserved(off, nil), coqBool(usesFn), coqBool(same), coqBool(raceFree))
	c.add(ci)
	if !raceFree {
		c.count("race_reports")
	}
}

// concurrentSame: 16 goroutines x 3 runs on one shared ParseResult and one shared store; every
// result must equal the sequential one.
func concurrentSame(sc Scenario) bool {
	p := numscript.Parse(sc.Text)
	store := numscript.StaticStore{Balances: deepCopyBalances(sc.Bal), Meta: deepCopyMeta(sc.Meta)}
	var wg sync.WaitGroup
	results := make([]Outcome, 16)
	start := make(chan struct{})
	for i := 0; i < 16; i++ {
		wg.Add(1)
		go func(i int) {
			defer wg.Done()
			<-start
			var o Outcome
			for j := 0; j < 3; j++ {
				o = runParsed(p, sc.Vars, store, sc.Flag)
			}
			results[i] = o
		}(i)
	}
	close(start)
	wg.Wait()
	seq := runParsed(numscript.Parse(sc.Text), sc.Vars, numscript.StaticStore{Balances: deepCopyBalances(sc.Bal), Meta: deepCopyMeta(sc.Meta)}, sc.Flag)
	for _, o := range results {
		if !outcomeEqual(o, seq) {
			return false
		}
	}
	return true
}

// raceChild re-executes this binary on one scenario with the race detector's exit code enabled.
func raceChild(sc Scenario) (same bool, raceFree bool) {
	f, err := os.CreateTemp("", "c11case*.json")
	if err != nil {
		return concurrentSame(sc), true
	}
	defer os.Remove(f.Name())
	f.WriteString(sc.json())
	f.Close()
	cmd := exec.Command(os.Args[0], "-prop", "C11child", "-replay", f.Name(), "-out", os.TempDir())
	cmd.Env = append(os.Environ(), "VERIF_RACE_CHILD=1", "GORACE=exitcode=66 halt_on_error=0 atexit_sleep_ms=0")
	out, err := cmd.CombinedOutput()
	if ee, ok := err.(*exec.ExitError); ok {
		if ee.ExitCode() == 66 || strings.Contains(string(out), "DATA RACE") {
			return !strings.Contains(string(out), "CONCURRENT-DIFFER"), false
		}
	}
	return !strings.Contains(string(out), "CONCURRENT-DIFFER"), !strings.Contains(string(out), "DATA RACE")
}

func init() {
	registry["C11child"] = func(c *Ctx) {
		c.group("runs", "c11case", "judge_C11")
		sc := scenarioFromInfo(c.replay)
		if !concurrentSame(sc) {
			fmt.Println("CONCURRENT-DIFFER")
		}
		c.outDir = ""
	}
}
