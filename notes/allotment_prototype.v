From Coq Require Import List ZArith QArith Qround Lia Lqa ZifyBool.
Import ListNotations.
Open Scope Z_scope.

(* floor share of portion p of amount n:  Go: (p * n).Num() / (p * n).Denom()  with big.Int.Div (Euclidean, denominator > 0) *)
Definition fshare (n : Z) (p : Q) : Z := Qfloor (p * inject_Z n).

Definition qsum (ps : list Q) : Q := fold_right Qplus 0%Q ps.
Definition zsum (xs : list Z) : Z := fold_right Z.add 0 xs.

(* the leftover loop: hand out one unit to the earliest parts while something is missing *)
Fixpoint bump (deficit : Z) (xs : list Z) : list Z :=
  match xs with
  | [] => []
  | x :: xs' => if 0 <? deficit then (x + 1) :: bump (deficit - 1) xs' else x :: bump deficit xs'
  end.

Definition shares (n : Z) (ps : list Q) : list Z :=
  let fl := map (fshare n) ps in bump (n - zsum fl) fl.

Lemma zsum_bump d xs : 0 <= d <= Z.of_nat (length xs) -> zsum (bump d xs) = zsum xs + d.
Proof.
  revert d. induction xs as [|x xs IH]; intros d Hd; cbn [bump zsum fold_right length] in *.
  - lia.
  - destruct (0 <? d) eqn:E.
    + cbn [zsum fold_right]. fold (zsum (bump (d - 1) xs)). rewrite IH by lia. fold (zsum xs). lia.
    + cbn [zsum fold_right]. fold (zsum (bump d xs)). assert (d = 0) by lia. subst. rewrite IH by lia. fold (zsum xs). lia.
Qed.

Lemma bump_shape d xs i : 0 <= d ->
  nth i (bump d xs) 0 = nth i xs 0 + (if (Z.of_nat i <? d) && (i <? length xs)%nat then 1 else 0).
Proof.
  revert d i. induction xs as [|x xs IH]; intros d i Hd.
  - destruct i; cbn [bump nth length]; replace (_ <? 0)%nat with false by (symmetry; apply Nat.ltb_ge; lia); rewrite Bool.andb_false_r; lia.
  - cbn [bump]. destruct (0 <? d) eqn:E.
    + destruct i as [|i]; cbn [nth length].
      * replace (Z.of_nat 0 <? d) with true by lia. cbn. lia.
      * rewrite IH by lia. replace (Z.of_nat (S i) <? d) with (Z.of_nat i <? d - 1) by lia.
        replace (S i <? S (length xs))%nat with (i <? length xs)%nat by reflexivity. reflexivity.
    + assert (d = 0) by lia. subst. destruct i as [|i]; cbn [nth length].
      * cbn. lia.
      * rewrite IH by lia. replace (Z.of_nat (S i) <? 0) with false by lia.
        replace (Z.of_nat i <? 0) with false by lia. reflexivity.
Qed.

(* floors: n - k < sum of floors <= n when the portions sum to one *)
Lemma floors_bounds n ps :
  (inject_Z (zsum (map (fshare n) ps)) <= qsum ps * inject_Z n)%Q /\
  (qsum ps * inject_Z n < inject_Z (zsum (map (fshare n) ps) + Z.of_nat (length ps)) \/ ps = [])%Q.
Proof.
  induction ps as [|p ps [IH1 IH2]].
  - cbn. change (inject_Z 0) with 0%Q. split; [lra|right; reflexivity].
  - cbn [map zsum qsum fold_right length]. fold (zsum (map (fshare n) ps)). fold (qsum ps).
    pose proof (Qfloor_le (p * inject_Z n)) as H1.
    pose proof (Qlt_floor (p * inject_Z n)) as H2.
    change (fshare n p) with (Qfloor (p * inject_Z n)). rewrite !inject_Z_plus in *. split.
    + rewrite Qmult_plus_distr_l. lra.
    + left. rewrite Nat2Z.inj_succ. unfold Z.succ. rewrite !inject_Z_plus. rewrite Qmult_plus_distr_l.
      change (inject_Z 1) with 1%Q in *.
      destruct IH2 as [IH2|IH2]; [|subst ps].
      * lra.
      * cbn [map zsum qsum fold_right length Z.of_nat]. change (inject_Z 0) with 0%Q. lra.
Qed.

Theorem shares_exact n ps :
  0 <= n -> ps <> [] -> (qsum ps == 1)%Q ->
  let fl := map (fshare n) ps in
  let r := n - zsum fl in
  zsum (shares n ps) = n /\ 0 <= r < Z.of_nat (length ps) /\
  forall i, nth i (shares n ps) 0 = nth i fl 0 + (if (Z.of_nat i <? r) && (i <? length ps)%nat then 1 else 0).
Proof.
  intros Hn Hne Hsum fl r.
  destruct (floors_bounds n ps) as [H1 [H2|H2]]; [|contradiction].
  rewrite Hsum, Qmult_1_l in H1, H2. rewrite <- Zle_Qle in H1. rewrite <- Zlt_Qlt in H2.
  fold fl in H1, H2.
  assert (Hr : 0 <= r < Z.of_nat (length ps)) by (unfold r; lia).
  split; [|split; [exact Hr|]].
  - unfold shares. fold fl. fold r. rewrite zsum_bump; [unfold r; lia|]. unfold fl. rewrite map_length. lia.
  - intros i. unfold shares. fold fl. fold r. rewrite bump_shape by lia. unfold fl. rewrite map_length. reflexivity.
Qed.
Print Assumptions shares_exact.
Eval vm_compute in shares 99 [15#100; 30#100; 55#100]%Q.
Eval vm_compute in shares 10 [1#3; 1#3; 1#3]%Q.
