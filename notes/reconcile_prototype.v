From Coq Require Import List ZArith Lia String Bool.
Import ListNotations.
Open Scope Z_scope.

Definition name := string.
Definition KEPT : name := "<kept>"%string.
Definition entry := (name * Z)%type.
Record posting := { psrc : name; pdst : name; pamt : Z }.

(* drop [k] units from the front of the sender stack (fixed KEPT branch) *)
Fixpoint drop_units (k : Z) (S : list entry) : list entry :=
  match S with
  | [] => []
  | (s, m) :: S' =>
      if k <=? 0 then S
      else if k <? m then (s, m - k) :: S'
      else drop_units (k - m) S'
  end.

Definition emit (acc : list posting) (s d : name) (a : Z) : list posting :=
  match acc with
  | p :: acc' =>
      if (String.eqb (psrc p) s && String.eqb (pdst p) d)%bool
      then {| psrc := s; pdst := d; pamt := pamt p + a |} :: acc'
      else {| psrc := s; pdst := d; pamt := a |} :: acc
  | [] => [{| psrc := s; pdst := d; pamt := a |}]
  end.

Fixpoint rec (fuel : nat) (S R : list entry) (acc : list posting) : list posting :=
  match fuel with
  | O => acc
  | Datatypes.S fuel' =>
    match R with
    | [] => acc
    | (r, rm) :: R' =>
      if String.eqb r KEPT then rec fuel' (drop_units rm S) R' acc
      else match S with
        | [] => acc
        | (s, sm) :: S' =>
          match sm ?= rm with
          | Eq => rec fuel' S' R' (emit acc s r sm)
          | Lt => rec fuel' S' ((r, rm - sm) :: R') (emit acc s r sm)
          | Gt => rec fuel' ((s, sm - rm) :: S') R' (emit acc s r rm)
          end
        end
    end
  end.

Definition reconcile (S R : list entry) : list posting :=
  rev (rec (List.length S + List.length R + 1) S R []).

(* ---------- specification by unit expansion ---------- *)
Definition expand (l : list entry) : list name :=
  flat_map (fun e => repeat (fst e) (Z.to_nat (snd e))) l.

Definition hit (s d : name) (p : name * name) : Z :=
  if (String.eqb (fst p) s && String.eqb (snd p) d)%bool then 1 else 0.

Fixpoint count (s d : name) (l : list (name * name)) : Z :=
  match l with [] => 0 | p :: l' => hit s d p + count s d l' end.

Definition flow_units (S R : list entry) (s d : name) : Z :=
  count s d (combine (expand S) (expand R)).

Fixpoint flow (ps : list posting) (s d : name) : Z :=
  match ps with
  | [] => 0
  | p :: ps' => (if (String.eqb (psrc p) s && String.eqb (pdst p) d)%bool then pamt p else 0) + flow ps' s d
  end.

Definition pos_entries (l : list entry) := Forall (fun e => 0 < snd e) l.

Lemma count_app s d l1 l2 : count s d (l1 ++ l2) = count s d l1 + count s d l2.
Proof. induction l1 as [|p l1 IH]; cbn [count app]; lia. Qed.

Lemma flow_app ps qs s d : flow (ps ++ qs) s d = flow ps s d + flow qs s d.
Proof. induction ps as [|p ps IH]; cbn [flow app]; lia. Qed.

Lemma flow_rev ps s d : flow (rev ps) s d = flow ps s d.
Proof. induction ps as [|p ps IH]; cbn [rev flow]; [reflexivity|]. rewrite flow_app, IH. cbn [flow]. lia. Qed.

Lemma flow_emit acc s r a s' d' :
  flow (emit acc s r a) s' d' =
  flow acc s' d' + (if (String.eqb s s' && String.eqb r d')%bool then a else 0).
Proof.
  unfold emit. destruct acc as [|p acc]; cbn [flow].
  - cbn. lia.
  - destruct (String.eqb (psrc p) s) eqn:E1; destruct (String.eqb (pdst p) r) eqn:E2; cbn [andb flow psrc pdst pamt]; try lia.
    apply String.eqb_eq in E1, E2. subst.
    destruct (String.eqb (psrc p) s' && String.eqb (pdst p) d')%bool; lia.
Qed.

Lemma count_repeat s d s' d' n :
  count s' d' (repeat (s, d) n) = if (String.eqb s s' && String.eqb d d')%bool then Z.of_nat n else 0.
Proof.
  induction n as [|n IH]; cbn [repeat count].
  - destruct (_ && _)%bool; reflexivity.
  - rewrite IH. unfold hit. cbn [fst snd]. destruct (String.eqb s s' && String.eqb d d')%bool; lia.
Qed.

Lemma combine_repeat {A B} (a : A) (b : B) n X Y :
  combine (repeat a n ++ X) (repeat b n ++ Y) = repeat (a, b) n ++ combine X Y.
Proof. induction n as [|n IH]; cbn; [reflexivity|]. now rewrite IH. Qed.

Lemma repeat_add {A} (a : A) n m : repeat a (n + m) = repeat a n ++ repeat a m.
Proof. induction n; cbn; [reflexivity|]. now f_equal. Qed.

Lemma expand_cons e l : expand (e :: l) = repeat (fst e) (Z.to_nat (snd e)) ++ expand l.
Proof. reflexivity. Qed.

(* units paired with KEPT never count for a real destination *)
Lemma count_kept_prefix s d (X : list name) k Y (Y' : list name) :
  d <> KEPT ->
  count s d (combine X (repeat KEPT k ++ Y)) = count s d (combine (skipn k X) Y).
Proof.
  intros Hd. revert X. induction k as [|k IH]; intros X; cbn [repeat app skipn]; [reflexivity|].
  destruct X as [|x X]; [cbn; destruct Y; reflexivity|].
  cbn [combine count]. rewrite IH. unfold hit. cbn [fst snd].
  destruct (String.eqb KEPT d) eqn:E; [apply String.eqb_eq in E; congruence|].
  rewrite Bool.andb_false_r. lia.
Qed.

Lemma expand_drop_units k S :
  pos_entries S -> 0 <= k ->
  expand (drop_units k S) = skipn (Z.to_nat k) (expand S).
Proof.
  intros HS. revert k. induction HS as [|[s m] S Hm HS IH]; intros k Hk.
  - cbn. now rewrite skipn_nil.
  - cbn [snd] in Hm. cbn [drop_units].
    destruct (k <=? 0) eqn:E0.
    + assert (k = 0) by lia. subst. reflexivity.
    + destruct (k <? m) eqn:E1.
      * rewrite !expand_cons. cbn [fst snd].
        replace (Z.to_nat m) with (Z.to_nat k + Z.to_nat (m - k))%nat by lia.
        rewrite repeat_add, <- app_assoc.
        rewrite skipn_app, repeat_length, Nat.sub_diag. cbn [skipn].
        rewrite (skipn_all2 (n:=Z.to_nat k)) by (rewrite repeat_length; lia). reflexivity.
      * rewrite IH by lia. rewrite expand_cons. cbn [fst snd].
        rewrite skipn_app, repeat_length.
        rewrite (skipn_all2 (n:=Z.to_nat k)) by (rewrite repeat_length; lia). cbn [app].
        f_equal. lia.
Qed.

Lemma pos_drop_units k S : pos_entries S -> pos_entries (drop_units k S).
Proof.
  intros HS. revert k. induction HS as [|[s m] S Hm HS IH]; intros k; cbn [drop_units]; [constructor|].
  destruct (k <=? 0); [constructor; assumption|].
  destruct (k <? m) eqn:E; [constructor; [cbn [snd] in *; lia|assumption]|apply IH].
Qed.

Lemma length_drop_units k S : (List.length (drop_units k S) <= List.length S)%nat.
Proof.
  revert k. induction S as [|[s m] S IH]; intros k; cbn [drop_units]; [lia|].
  destruct (k <=? 0); [lia|]. destruct (k <? m); cbn [List.length]; [lia|]. specialize (IH (k - m)). lia.
Qed.

Lemma rec_flow fuel : forall S R acc s d,
  pos_entries S -> pos_entries R -> d <> KEPT ->
  (List.length S + List.length R < fuel)%nat ->
  flow (rec fuel S R acc) s d = flow acc s d + flow_units S R s d.
Proof.
  induction fuel as [|fuel IH]; intros S R acc s d HS HR Hd Hf; [lia|].
  cbn [rec]. destruct R as [|[r rm] R'].
  - unfold flow_units. rewrite combine_nil. cbn. lia.
  - inversion HR as [|? ? Hrm HR']; subst. cbn [snd] in Hrm.
    destruct (String.eqb r KEPT) eqn:Er.
    + apply String.eqb_eq in Er; subst r.
      rewrite IH; try assumption.
      * unfold flow_units. rewrite (expand_cons (KEPT, rm)). cbn [fst snd].
        rewrite count_kept_prefix by (assumption || exact []).
        rewrite expand_drop_units by (assumption || lia). reflexivity.
      * now apply pos_drop_units.
      * pose proof (length_drop_units rm S). cbn [List.length] in Hf. lia.
    + destruct S as [|[s0 sm] S'].
      * unfold flow_units. cbn. lia.
      * inversion HS as [|? ? Hsm HS']; subst. cbn [snd] in Hsm.
        unfold flow_units. rewrite !expand_cons. cbn [fst snd].
        destruct (Z.compare_spec sm rm) as [C|C|C].
        -- subst rm.
           rewrite IH; try assumption; [|cbn [List.length] in Hf; lia].
           rewrite flow_emit, combine_repeat, count_app, count_repeat. unfold flow_units.
           destruct (_ && _)%bool; lia.
        -- 
           rewrite IH; try assumption; [| constructor; [cbn [snd]; lia|assumption] | cbn [List.length] in *; lia].
           rewrite flow_emit. unfold flow_units. rewrite expand_cons. cbn [fst snd].
           replace (Z.to_nat rm) with (Z.to_nat sm + Z.to_nat (rm - sm))%nat by lia.
           rewrite repeat_add, <- app_assoc, combine_repeat, count_app, count_repeat.
           destruct (_ && _)%bool; lia.
        -- 
           rewrite IH; try assumption; [| constructor; [cbn [snd]; lia|assumption] | cbn [List.length] in *; lia].
           rewrite flow_emit. unfold flow_units. rewrite expand_cons. cbn [fst snd].
           replace (Z.to_nat sm) with (Z.to_nat rm + Z.to_nat (sm - rm))%nat by lia.
           rewrite repeat_add, <- app_assoc, combine_repeat, count_app, count_repeat.
           destruct (_ && _)%bool; lia.
Qed.

Theorem reconcile_flow S R s d :
  pos_entries S -> pos_entries R -> d <> KEPT ->
  flow (reconcile S R) s d = flow_units S R s d.
Proof.
  intros HS HR Hd. unfold reconcile. rewrite flow_rev, rec_flow by (assumption || lia). reflexivity.
Qed.
Print Assumptions reconcile_flow.

Eval vm_compute in reconcile [("a"%string,5);("b"%string,5)] [(KEPT,8);("c"%string,2)].
Eval vm_compute in reconcile [("a"%string,5);("b"%string,5)] [("c"%string,3);("c"%string,4);("d"%string,3)].
