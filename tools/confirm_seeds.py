#!/usr/bin/env python3
"""Confirms seeded changes (from /tmp/seedout) in a scratch worktree and files them under /verif/seeded/<id>/.
For each: suite passes with the patch; the demonstration fails with it and passes without it."""
import os, sys, json, subprocess, shutil, glob, re
WT = os.environ.get("SEED_WT", "/tmp/seedwt1")
ENV = dict(os.environ, GOFLAGS="-mod=mod", GOPROXY="off", GOSUMDB="off", GOTOOLCHAIN="local")
def sh(cmd, cwd=WT, env=ENV):
    p = subprocess.run(cmd, cwd=cwd, env=env, shell=isinstance(cmd, str), capture_output=True, text=True)
    return p.returncode, (p.stdout + p.stderr)
def reset():
    sh("git checkout -q -- . && git clean -fdq")
def pkg_of(testfile, notes):
    src = open(testfile).read()
    m = re.search(r"^package\s+(\w+)", src, flags=re.M)
    pkg = m.group(1)
    base = os.path.basename(testfile)
    m2 = re.search(r"((?:internal/[\w/]+/)?%s)" % re.escape(base), notes)
    if m2 and "/" in m2.group(1):
        return os.path.dirname(m2.group(1))
    return {"numscript_test": ".", "numscript": ".", "parser": "internal/parser", "parser_test": "internal/parser", "analysis": "internal/analysis", "analysis_test": "internal/analysis",
            "interpreter": "internal/interpreter", "interpreter_test": "internal/interpreter", "lsp": "internal/lsp", "lsp_test": "internal/lsp", "cmd": "internal/cmd", "cmd_test": "internal/cmd"}[pkg]
out = {}
for d in sorted(glob.glob(os.environ.get("SEEDOUT_GLOB", "/tmp/seedout/C??_?"))):
    sid = os.path.basename(d)
    if len(sys.argv) > 1 and sid not in sys.argv[1:]:
        continue
    tests = glob.glob(os.path.join(d, "*_test.go"))
    notes = open(os.path.join(d, "notes.md")).read()
    rel = pkg_of(tests[0], notes)
    race = "-race" if ("-race" in notes and sid == "C11_b") else ""
    env = dict(ENV, CGO_ENABLED="1") if race else ENV
    reset()
    dst = os.path.join(WT, rel, os.path.basename(tests[0]))
    # 1. demo passes without the patch
    shutil.copy(tests[0], dst)
    rc0, o0 = sh("go test -vet=off -count=1 %s -run . ./%s 2>&1 | tail -5" % (race, rel), env=env)
    pass_without = (" ok " in o0 or o0.startswith("ok") or "\nok" in o0) and "FAIL" not in o0
    os.remove(dst)
    # 2. patch applies, suite passes
    rc1, o1 = sh(["git", "apply", os.path.join(d, "patch.diff")])
    rc2, o2 = sh("go build ./... && go test -vet=off -count=1 ./... 2>&1 | grep -v 'no test files'")
    suite_ok = rc1 == 0 and "FAIL" not in o2 and "ok" in o2
    # 3. demo fails with the patch
    shutil.copy(tests[0], dst)
    rc3, o3 = sh("go test -vet=off -count=1 %s -run . ./%s 2>&1 | tail -15" % (race, rel), env=env)
    fail_with = "FAIL" in o3 or "panic" in o3
    reset()
    ok = pass_without and suite_ok and fail_with
    out[sid] = {"ok": ok, "pass_without": pass_without, "suite_ok": suite_ok, "fail_with": fail_with, "rel": rel, "race": bool(race)}
    print(sid, out[sid], flush=True)
    if ok:
        tgt = os.path.join("/verif/seeded", sid)
        os.makedirs(tgt, exist_ok=True)
        shutil.copy(os.path.join(d, "patch.diff"), tgt)
        shutil.copy(tests[0], tgt)
        shutil.copy(os.path.join(d, "notes.md"), tgt)
        first = [l for l in notes.splitlines() if l.strip() and not l.startswith("#")]
        json.dump({"property": sid[:3], "seed": sid, "demonstration": os.path.join(rel, os.path.basename(tests[0])),
                   "needs_to_manifest": "see notes.md", "confirmed": {"existing suite passes with the patch": True, "demonstration fails with the patch": True, "demonstration passes without the patch": True, "needs -race": bool(race)},
                   "commands": ["git apply patch.diff", "go test -vet=off -count=1 ./...", "go test -vet=off -count=1 %s ./%s (with the demonstration copied there)" % (race, rel)]},
                  open(os.path.join(tgt, "meta.json"), "w"), indent=1)
json.dump(out, open(os.environ.get("SEEDOUT_CONFIRM", "/tmp/seedout/confirm.json"), "w"), indent=1)
