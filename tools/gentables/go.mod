module gentables

go 1.22
