#!/usr/bin/env python3
"""Systematic one-token mutations of the hand-written Go code, as a measure of what the checks see.

usage: VERIF_REPO=<scratch worktree of /repo> tools/mutate.py <shard> <nshards> [--files f1,f2] [--limit n] > log

For every mutation site (comparison and boolean operators, +1/-1, Add/Sub, true/false, continue/break, a dropped `!`)
in the listed files - deterministic order, sharded - the tool applies the mutant to the worktree and
  1. builds (`go build ./...`): a mutant that does not compile is skipped;
  2. runs the repository's own test suite: a mutant it kills is of no interest here;
  3. runs the quick check of each property anchored in that file, most likely first, and stops at the first one that
     prints a VIOLATION line.
One line per mutant: `<file>:<line>:<col> <from>-><to> | nobuild | tests | caught <property> | SURVIVED`. Survivors need a
human: many are equivalent (the change breaks no property), the others are gaps of the generators or judges.
Run it from a scratch COPY of /verif (it overwrites evidence files) and never on /repo itself."""
import os
import re
import subprocess
import sys

ROOT = os.path.dirname(os.path.dirname(os.path.abspath(__file__)))
WT = os.environ.get("VERIF_REPO", "")
ENV = dict(os.environ, GOFLAGS="-mod=mod", GOPROXY="off", GOSUMDB="off", GOTOOLCHAIN="local")

GROUPS = {
    "internal/interpreter/interpreter.go": ["C03", "C01", "C04", "C05", "C08", "C09", "C02", "C06", "C12", "C10", "C07", "C13", "C11", "C17"],
    "internal/interpreter/batch_balances_query.go": ["C10", "C01", "C03", "C04", "C09", "C12", "C11"],
    "internal/interpreter/reconciler.go": ["C07", "C02", "C03", "C05"],
    "internal/interpreter/value.go": ["C13", "C12", "C03", "C06", "C17", "C20"],
    "internal/interpreter/evaluate_expr.go": ["C12", "C13", "C03", "C17", "C06"],
    "internal/interpreter/infix.go": ["C03", "C13", "C12", "C08", "C04"],
    "internal/interpreter/args_parser.go": ["C12", "C17", "C13"],
    "internal/analysis/check.go": ["C16", "C17", "C18", "C19"],
    "internal/analysis/hover.go": ["C19", "C18"],
    "internal/analysis/goto_definition.go": ["C19", "C18"],
    "internal/analysis/document_symbols.go": ["C19", "C18", "C16"],
    "internal/parser/parser.go": ["C15", "C14", "C18", "C06", "C13"],
    "internal/parser/range.go": ["C14", "C19", "C15", "C18"],
    "internal/lsp/handlers.go": ["C19"],
    "internal/cmd/run.go": ["C20"],
    "internal/cmd/check.go": ["C20"],
    "internal/utils/utils.go": ["C03", "C04", "C05", "C01", "C12"],
    "numscript.go": ["C11", "C12", "C10", "C14"],
}

RULES = [
    (r"<=", ["<"]), (r">=", [">"]), (r"(?<![<\-=!>])<(?![=<\-])", ["<="]), (r"(?<![>\-=!<])>(?![=>])", [">="]),
    (r"==", ["!="]), (r"!=", ["=="]), (r"&&", ["||"]), (r"\|\|", ["&&"]),
    (r"\+ 1\b", ["- 1", "+ 0"]), (r"- 1\b", ["+ 1", "- 0"]), (r"\.Add\(", [".Sub("]), (r"\.Sub\(", [".Add("]),
    (r"\btrue\b", ["false"]), (r"\bfalse\b", ["true"]), (r"\bcontinue\b", ["break"]), (r"\bbreak\b", ["continue"]),
    (r"!(?=[a-zA-Z_(])", [""]), (r"\bnil\b(?= *\{)", []),
    (r"== -1", ["== 1"]), (r"== 1\b", ["== -1"]), (r"\.Sign\(\) < 0", [".Sign() <= 0"]), (r"\.Sign\(\) > 0", [".Sign() >= 0"]),
    (r"\.Sign\(\) <= 0", [".Sign() < 0"]), (r"\.Sign\(\) >= 0", [".Sign() > 0"]), (r"\.Sign\(\) == 0", [".Sign() <= 0"]),
    (r"\b0\b(?=\))", ["1"]),
]


def sites(path):
    out = []
    src = open(os.path.join(WT, path)).read().split("\n")
    in_block = False
    for ln, line in enumerate(src):
        code = line
        if in_block:
            if "*/" in code:
                in_block = False
            continue
        if code.lstrip().startswith("/*"):
            in_block = "*/" not in code
            continue
        cut = code.find("//")
        if cut >= 0:
            code = code[:cut]
        if not code.strip() or code.lstrip().startswith(("import", "package", "\"", "case *", "func ")):
            continue
        # blank out string literals
        masked = re.sub(r'"(\\.|[^"\\])*"|`[^`]*`', lambda m: " " * len(m.group(0)), code)
        for pat, reps in RULES:
            for m in re.finditer(pat, masked):
                for rep in reps:
                    out.append((path, ln, m.start(), m.end(), m.group(0), rep))
    return out


def sh(cmd, cwd, timeout):
    try:
        p = subprocess.run(cmd, cwd=cwd, env=ENV, stdout=subprocess.PIPE, stderr=subprocess.STDOUT, text=True, timeout=timeout)
        return p.returncode, p.stdout
    except subprocess.TimeoutExpired:
        return 124, "timeout"


def main():
    if not WT or os.path.realpath(WT) == "/repo":
        print("VERIF_REPO must name a scratch worktree")
        return 2
    shard, nsh = int(sys.argv[1]), int(sys.argv[2])
    files = list(GROUPS)
    limit = None
    if "--files" in sys.argv:
        files = sys.argv[sys.argv.index("--files") + 1].split(",")
    if "--limit" in sys.argv:
        limit = int(sys.argv[sys.argv.index("--limit") + 1])
    allsites = []
    for f in files:
        allsites += sites(f)
    mine = [s for i, s in enumerate(allsites) if i % nsh == shard]
    if limit:
        mine = mine[:limit]
    print("# %d sites in all, %d in shard %d/%d" % (len(allsites), len(mine), shard, nsh), flush=True)
    for path, ln, a, b, frm, to in mine:
        full = os.path.join(WT, path)
        orig = open(full).read()
        lines = orig.split("\n")
        lines[ln] = lines[ln][:a] + to + lines[ln][b:]
        tag = "%s:%d:%d %s->%s" % (path, ln + 1, a + 1, frm, to or "(dropped)")
        try:
            open(full, "w").write("\n".join(lines))
            rc, _ = sh(["go", "build", "./..."], WT, 300)
            if rc != 0:
                print(tag, "| nobuild", flush=True)
                continue
            rc, _ = sh(["go", "test", "-vet=off", "-count=1", "./..."], WT, 600)
            if rc != 0:
                print(tag, "| tests", flush=True)
                continue
            verdict = "SURVIVED"
            for pid in GROUPS.get(path, []):
                rc, out = sh([os.path.join(ROOT, "check"), pid], ROOT, 900)
                if "VIOLATION" in out:
                    verdict = "caught " + pid + (" (no input)" if "no-failing-input-found" in out and "replay_unproved" in out.split("VIOLATION")[1][:200] else "")
                    break
            print(tag, "|", verdict, "|", lines[ln].strip()[:110], flush=True)
        finally:
            open(full, "w").write(orig)
    return 0


if __name__ == "__main__":
    sys.exit(main())
