"""Per-property configuration of the driver: generation rule text, assumptions, trusted base."""

INTERP_MODELLED = "modelled rather than verified: interpreter.go, evaluate_expr.go, infix.go, value.go, args_parser.go, reconciler.go, batch_balances_query.go (coq/Model/*.v)"

PROPS = {
    "C07": {
        "rule": "group direct: interpreter.Reconcile called on generated sender/receiver lists (names a,b,c / x,y,a,<kept>; lengths 0..4; amounts 1..9 and big); thorough adds the exhaustive small scope (senders <=3 over 2 names x amounts 1..3, receivers <=2 over 2 names + kept x amounts 1..3). group sends: single-send scripts from the grammar-complete generator run through numscript.Parse(..).Run. Non-trivial: at least one sender and one receiver reach the reconciler; distinct by hash of the Coq case term.",
        "assumptions": ["the unit-expansion pairing (coq/Spec/Pairing.v) is what 'first-come-first-served' means",
                        "the judge uses the interval-overlap closed form flow_iv of the pairing (Spec/Pairing.v)"],
        "trusted_base": [INTERP_MODELLED],
    },
}
