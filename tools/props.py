"""Per-property configuration of the driver: generation rule text, assumptions, trusted base."""

INTERP_MODELLED = "modelled rather than verified: interpreter.go, evaluate_expr.go, infix.go, value.go, args_parser.go, reconciler.go, batch_balances_query.go (coq/Model/*.v)"

SCRIPTS_RULE = "scripts from the grammar-complete generator (harness/gen.go: every alternative of every rule, nesting depth <= 3 (thorough: <= 5), account pool of 6 names + world so that repetition and aliasing through variables are frequent, balances incl. zero/negative/>2^64, amounts centred on the supply threshold), run through numscript.Parse(..).Run against the harness's stores; "

PROPS = {
    "C01": {
        "rule": SCRIPTS_RULE + "profile: up to 5 statements (sends, send-all, saves), plus the directed templates repeatDraw (an account drawn several times with others in between) and saveThenUse. Non-trivial: the run succeeds with at least one posting and every source evaluates; distinct by hash.",
        "assumptions": ["the theorem is about run_stmts started from the balance sheet itself (C10 relates it to executions against a store)",
                        "theorem hypothesis eval_stmts: every expression of every send statement evaluates; scripts that succeed although an unreached destination expression would not evaluate are covered by the correspondence only"],
        "trusted_base": [INTERP_MODELLED],
    },
    "C02": {
        "rule": SCRIPTS_RULE + "profile: 25% negative caps, 15% hostile account-variable values (empty, <kept>, spaces, non-ASCII), directed templates keptSpan and repeatDraw. Non-trivial: success with at least one posting; distinct by hash.",
        "assumptions": ["'real account' is checked on observations with the ACCOUNT grammar (valid_account_name); the theorem proves positivity, asset grouping and absence of the kept marker"],
        "trusted_base": [INTERP_MODELLED],
    },
    "C08": {
        "rule": SCRIPTS_RULE + "profile: scripts that start with 1-3 save statements aimed at the accounts of the following sends (amounts around the balance: below, equal, above, `*`), a third from the directed template saveThenUse (save, optional refill, use with/without overdraft). Non-trivial: at least one leading save evaluates and the run succeeds; distinct by hash.",
        "assumptions": ["the judged bound is for leading saves (the theorem C08_reserve_kept covers saves anywhere, through the cache <= ledger invariant)"],
        "trusted_base": [INTERP_MODELLED],
    },
    "C09": {
        "rule": SCRIPTS_RULE + "profile: 2-5 statements, literal saves, no balance()/overdraft() origins; for every script EVERY split point k: whole run, run of S1..Sk, run of Sk+1..Sn on the balances updated by the first part's postings (statement by statement, from prefix executions of the implementation) and save reservations (Spec/Ledger.save_visible). Non-trivial: the whole run succeeds with postings; distinct by hash of (script, k).",
        "assumptions": ["variables do not read balances (quantifier of the property)", "saves in generated scripts are literal so that the harness can compute the reservation with the specification's save_visible"],
        "trusted_base": [INTERP_MODELLED],
    },
    "C10": {
        "rule": SCRIPTS_RULE + "profile: every second new variable has a meta()/balance()/overdraft() origin; directed templates unboundedThenBounded and worldBalance (a non-zero balance of @world on the ledger, read through balance()/overdraft() after another origin made the store answer); each script is executed against the five store behaviours {static (bundled StaticStore), exact, sparse (omits absent and zero), superset (whole content), poison (requested cells at their value, every other cell at a wrong value)} with all calls logged; every observation must equal the outcome of the sheet semantics (Spec/SheetRun.run_sheet, evaluated in Coq from the ledger alone). Non-trivial: at least one store call is made; distinct by hash.",
        "assumptions": ["'faithful' (Spec/SheetRun.v): a store answers every balance query with at least the requested cells at their ledger value (absent or zero cells may be omitted, anything may be added) and every metadata query with the ledger's text; the four behaviours of the harness are proved faithful (C10_store_kinds_faithful)",
                        "the sheet semantics reads cells that are never requested (incl. every balance of @world) as 0"],
        "trusted_base": [INTERP_MODELLED],
    },
    "C11": {
        "rule": SCRIPTS_RULE + "each script: run twice against the bundled StaticStore built on the caller's own maps, deep comparison of variables/balances/metadata before and after, flag on/off, and 16 goroutines x 3 runs sharing one ParseResult and one store (thorough tier: race-detector build, each case's concurrent part in a child process with GORACE exitcode). Non-trivial: success with postings; distinct by hash.",
        "assumptions": ["PARTIAL: aliasing, data races and schedules are explored, not proved (they are not expressible in the model)"],
        "trusted_base": [INTERP_MODELLED, "Go race detector (thorough tier)"],
        "race": True,
    },
    "C12": {
        "rule": SCRIPTS_RULE + "profile: 6% ill-typed expression positions, 12% garbage variable texts, hostile accounts, 10% bad allotments; FAULT ENUMERATION: for every generated script, one extra execution per store call it makes with an error injected at that call. Every case is non-trivial; distinct by hash.",
        "assumptions": ["'complete AST' (theorem hypothesis) is what an error-free parse yields: counted on every dumped AST by the correspondence (a nil node makes the model predict the panic)",
                        "the store answers a balance query with balances or an error (store_wellbehaved)"],
        "trusted_base": [INTERP_MODELLED, "Go runtime panics outside the modelled sites (e.g. inside math/big) are observed by recover() only"],
    },
    "C16": {
        "rule": "statically valid scripts from the generator (all constructs, six types, variables in every position, bounded overdraft and caps under send-all) and, for every second one, one edit among: delete / duplicate / move a declaration, rename or retarget a use, add an unused declaration; one script in five is ill-typed on purpose. analysis.CheckSource diagnostics (kind with payload, severity, range) and symbols compared with the model's; unbound / duplicate / unused diagnostics compared with Spec/Names.v, error-severity diagnostics forbidden when Spec/Typing.valid holds. Non-trivial: the text parses without error; distinct by hash.",
        "assumptions": ["Spec/Typing.valid is a conservative reading of 'valid by the language's static rules' (it excludes warning-only scripts)", "Spec/Names.v fixes 'not yet declared' as program order: a declaration is NOT in scope for the arguments of its own origin (the interpreter evaluates the origin first)"],
        "trusted_base": ["modelled rather than verified: analysis/check.go, diagnostic_kind.go, document_symbols.go (coq/Model/Check.v)"],
    },
    "C17": {
        "rule": "well-typed generated scripts x one type-breaking edit (re-declare a type, delete a declaration, break the arity / name / context of a call or origin, replace a use by a literal of any type, mismatched infix operands, turn a send into send-all) x variable values of the DECLARED types (no account variable bound to world) x balances; each script is checked (analysis.CheckSource) AND run (numscript.Parse(..).Run). Non-trivial: the checker reports no error; distinct by hash.",
        "assumptions": ["variable values have their declared types and no account variable is bound to 'world' (the property speaks of the shape of the source)"],
        "trusted_base": ["modelled rather than verified: analysis/check.go and the interpreter (coq/Model)"],
    },
    "C18": {
        "rule": "texts reachable by editing generated scripts at token level (prefix, delete / duplicate / insert / swap tokens, delete a run, unbalance brackets, drop a declaration's name or type, token soups; one or two edits) in two layouts, plus the corpus of texts that crashed the pinned tree; for each text: CheckSource + GetSymbols twice, HoverOn and GotoDefinition at EVERY position (line, 0..length+1). Model compared on diagnostics, symbols and every hover / definition answer. Non-trivial: the text has syntax errors; distinct by hash.",
        "assumptions": ["PARTIAL: the text -> raw tree step (ANTLR recovery) is explored, not proved; the theorems quantify over all raw trees without the nil shapes of tree_safe"],
        "trusted_base": ["modelled rather than verified: analysis/check.go, hover.go, goto_definition.go, document_symbols.go"],
    },
    "C19": {
        "rule": "group histories: random request histories (3-32 requests) over 3 URIs x 4 texts (valid, name-edited, token-edited, empty) fed to lsp.Handle with stdout captured (publishDiagnostics), thorough adds ALL histories of length <= 3 over a 14-request alphabet; one history in eight is ALSO sent to the `numscript lsp` process built from the working tree (Content-Length framed requests on stdin, stdout read back) and its stream of responses and notifications must equal the in-process one message by message (arrays of objects sorted: symbols and diagnostics come out of Go maps); group navigation: one generated script opened, then hover AND definition at every position (line, 0..length+1). Every response compared with the server model, with the specification (fresh analysis of the latest text) and, for navigation, with the independent traversal of Spec/Names. Non-trivial: every case; distinct by hash.",
        "assumptions": ["LSP wire framing and the server loop (server.go, cmd/lsp.go) are exercised through the real process on a sample of histories, not modelled; positions are sent as (line, character) pairs", "at the last character of a range either neighbour's answer is accepted (Range.Contains is end-inclusive)", "C19_navigation_exact assumes nested ranges (every node's range encloses the targets below it) and C19_navigation_at_shared_positions pairwise distinct target ranges: both evaluated on every error-free parsed document of the run, a failure is a property failure"],
        "trusted_base": ["modelled rather than verified: lsp/handlers.go, analysis/hover.go, goto_definition.go, document_symbols.go, check.go"],
        "cli": True,
    },
    "C20": {
        "rule": "generated scripts (clean, warning-only after name edits, erroneous; succeeding and failing at run time; amounts beyond 2^64 in balances and variables): the numscript binary built from the working tree is run as a process: `check FILE` (exit status, printed positions) and `run` through --raw, --stdin and file flags in JSON mode (exit status, decoded stdout, stderr prefix), each compared with the library called in-process on the same inputs. Every case non-trivial; distinct by hash.",
        "assumptions": ["PARTIAL: cobra, encoding/json, file I/O, stdout/stderr and exit codes are exercised as a black box, not modelled"],
        "trusted_base": ["modelled rather than verified: decision logic of cmd/check.go, cmd/run.go (coq/Model/Cli.v)"],
        "cli": True,
    },
    "C13": {
        "rule": "group portions: portion texts of the literal grammar (percentages with 1-3 integer digits and 0-20 decimals, ratios small / with leading zeros / with spaces around the slash / with numerals beyond 2^64 / above one / over zero, plus the corpus of spellings that were wrong on the pinned tree; thorough: exhaustive short texts), each observed both as a literal (set_tx_meta(\"lit\", TEXT), exact big.Rat from the result) and as a portion variable; group roundtrips: for each of the six types, values written by one script to account and transaction metadata (literals and variables: any sign and size, strings with quotes / spaces / non-ASCII / newlines, portions 0 and 1) are read back by a second script through a metadata-backed variable and by a third through a plain variable. Every case non-trivial; distinct by hash.",
        "assumptions": ["Spec/Decimal.portion_denotes is what 'denotes exactly that fraction in base ten' means"],
        "trusted_base": ["modelled rather than verified: parser.go ParsePercentageRatio / parseRatio, interpreter.go parseVar / parseMonetary / ParsePortionSpecific, value.go String() (coq/Model/Conv.v, Run.v, Value.v)", "encoding/json escaping of transaction metadata: glue, exercised only"],
    },
    "C14": {
        "rule": "texts: grammar-complete generated scripts in two layouts (valid by construction: must be accepted) and, for four in five, a mutation: token-level (prefix, delete / duplicate / insert / swap tokens, delete a run, unbalance, token soups), byte-level (truncate, delete / insert / replace a character incl. '#', quotes, comment openers, non-ASCII, CR), numerals that do not fit in an int (first or last line), plus the corpus of inputs that crashed the pinned tree; thorough adds truncation at EVERY offset of 12 scripts. Observed under recover(): numscript.Parse, GetParsingErrors, ParseErrorsToString; the reference parser decides validity, the model of ShowOnSource predicts rendering. Non-trivial: the text is not an unmutated valid script; distinct by hash.",
        "assumptions": ["PARTIAL: 'syntactically valid' is membership in the language of the declarative grammar coq/Spec/Grammar.v (Numscript.g4, one constructor per alternative), decided by the reference parser coq/Model/Parser.v which is proved sound and complete for it; ANTLR's generated code and error recovery are compared with that verdict on every input, not proved",
                        "known finding F-D10: a NUMBER literal outside the int range is rejected; for inputs with that signature (detected with the implementation's own lexer) only the acceptance requirement is waived"],
        "trusted_base": ["modelled rather than verified: Numscript.g4 (coq/Model/Lexer.v, Parser.v), parser.go conversions, range.go ShowOnSource (coq/Model/Render.v)", "the ANTLR runtime and generated lexer/parser: exercised only"],
    },
    "C15": {
        "rule": "scripts from the grammar-complete generator (every alternative of every rule, nesting <= 3, thorough <= 5; any expression in any position; number literals with leading zeros, portions in every spelling, strings with escaped quotes and non-ASCII) x 2 layouts (single spaces; random spaces / tabs / CR LF / blank lines / line and nested block comments with non-ASCII between any two tokens). parser.Parse's tree is dumped in full (every field and range) and compared in Coq with the generator's own tree carrying the printer's spans AND with the reference parser's tree. Group tokens: the generated ANTLR lexer run alone (NextToken until EOF, error listener collecting token recognition errors) on generated scripts, byte-mutated scripts and short strings over the characters the lexer rules discriminate on (slash, star, quote, backslash, CR, LF, digits, percent, dot, at, colon, dollar, non-ASCII, ...): kinds, texts, (line, column) of every token and the position of every lexical error must equal the reference lexer's, and every token text must be found in the input at the offset its position designates, in order, without overlap. Every case non-trivial; distinct by hash.",
        "assumptions": ["portion literals are compared by value (50% is 50/100 in the tree)"],
        "trusted_base": ["modelled rather than verified: Numscript.g4 (coq/Model/Lexer.v, Parser.v), parser.go tree conversion", "harness/gen.go printer spans are the 'text of that construct' of the property"],
    },
    "C03": {
        "rule": SCRIPTS_RULE + "profile: one fixed-amount send (optionally preceded by saves). Non-trivial: source and destination trees evaluate and the send reaches the draw; distinct by hash of the case.",
        "assumptions": ["Spec/Greedy.v (draw_exact) is what 'the sources, drawn in their declared order within their balances, caps and overdraft limits, can supply' means",
                        "Spec/Distribution.v gives the kept total"],
        "trusted_base": [INTERP_MODELLED],
    },
    "C04": {
        "rule": SCRIPTS_RULE + "profile: one send (35% send-all) into a plain account, sources of depth <= 4. Non-trivial: the source is not a single account and evaluates; distinct by hash.",
        "assumptions": ["Spec/Greedy.v is the reading of 'left-to-right greedy draw' (leaf: min(need, max 0 (balance + overdraft - already pulled)))"],
        "trusted_base": [INTERP_MODELLED],
    },
    "C05": {
        "rule": SCRIPTS_RULE + "profile: one fixed-amount send from @world into generated destination trees (depth <= 4, 20% negative caps, kept in any position). Non-trivial: the destination is not a single account; distinct by hash.",
        "assumptions": ["Spec/Distribution.v is the reading of 'declared distribution'"],
        "trusted_base": [INTERP_MODELLED],
    },
    "C06": {
        "rule": "single-allotment scripts `send [A n] (source=@world destination={p_i to @d_i})` with distinct accounts (and the mirrored source form): n in 0..40 / 0..10^5 / big mix, 1-4 clauses, denominators {2..12,100,1000,3000}, ratio and percentage spellings, portion variables, optional remaining, 8% bad sums; thorough adds the exhaustive small scope (denominators <= 6, <= 3 clauses, totals 0..40). Non-trivial: top-level allotment reached; distinct by hash.",
        "assumptions": ["Spec/Shares.v: share i = floor(p_i * n) + [i < leftover]"],
        "trusted_base": [INTERP_MODELLED, "ast.go RatioLiteral.ToRatio and the literal conversion are covered through the dumped AST (numerator/denominator) only"],
    },
    "C07": {
        "rule": "group direct: interpreter.Reconcile called on generated sender/receiver lists (names a,b,c / x,y,a,<kept>; lengths 0..4; amounts 1..9 and big); thorough adds the exhaustive small scope (senders <=3 over 2 names x amounts 1..3, receivers <=2 over 2 names + kept x amounts 1..3). group sends: single-send scripts from the grammar-complete generator run through numscript.Parse(..).Run. Non-trivial: at least one sender and one receiver reach the reconciler; distinct by hash of the Coq case term.",
        "assumptions": ["the unit-expansion pairing (coq/Spec/Pairing.v) is what 'first-come-first-served' means",
                        "the judge uses the interval-overlap closed form flow_iv of the pairing (Spec/Pairing.v)"],
        "trusted_base": [INTERP_MODELLED],
    },
}
