"""Per-property configuration of the driver: generation rule text, assumptions, trusted base."""

INTERP_MODELLED = "modelled rather than verified: interpreter.go, evaluate_expr.go, infix.go, value.go, args_parser.go, reconciler.go, batch_balances_query.go (coq/Model/*.v)"

SCRIPTS_RULE = "scripts from the grammar-complete generator (harness/gen.go: every alternative of every rule, nesting depth <= 3 (thorough: <= 5), account pool of 6 names + world so that repetition and aliasing through variables are frequent, balances incl. zero/negative/>2^64, amounts centred on the supply threshold), run through numscript.Parse(..).Run against the harness's stores; "

PROPS = {
    "C03": {
        "rule": SCRIPTS_RULE + "profile: one fixed-amount send (optionally preceded by saves). Non-trivial: source and destination trees evaluate and the send reaches the draw; distinct by hash of the case.",
        "assumptions": ["Spec/Greedy.v (draw_exact) is what 'the sources, drawn in their declared order within their balances, caps and overdraft limits, can supply' means",
                        "Spec/Distribution.v gives the kept total"],
        "trusted_base": [INTERP_MODELLED],
    },
    "C04": {
        "rule": SCRIPTS_RULE + "profile: one send (35% send-all) into a plain account, sources of depth <= 4. Non-trivial: the source is not a single account and evaluates; distinct by hash.",
        "assumptions": ["Spec/Greedy.v is the reading of 'left-to-right greedy draw' (leaf: min(need, max 0 (balance + overdraft - already pulled)))"],
        "trusted_base": [INTERP_MODELLED],
    },
    "C05": {
        "rule": SCRIPTS_RULE + "profile: one fixed-amount send from @world into generated destination trees (depth <= 4, 20% negative caps, kept in any position). Non-trivial: the destination is not a single account; distinct by hash.",
        "assumptions": ["Spec/Distribution.v is the reading of 'declared distribution'"],
        "trusted_base": [INTERP_MODELLED],
    },
    "C06": {
        "rule": "single-allotment scripts `send [A n] (source=@world destination={p_i to @d_i})` with distinct accounts (and the mirrored source form): n in 0..40 / 0..10^5 / big mix, 1-4 clauses, denominators {2..12,100,1000,3000}, ratio and percentage spellings, portion variables, optional remaining, 8% bad sums; thorough adds the exhaustive small scope (denominators <= 6, <= 3 clauses, totals 0..40). Non-trivial: top-level allotment reached; distinct by hash.",
        "assumptions": ["Spec/Shares.v: share i = floor(p_i * n) + [i < leftover]"],
        "trusted_base": [INTERP_MODELLED, "ast.go RatioLiteral.ToRatio and the literal conversion are covered through the dumped AST (numerator/denominator) only"],
    },
    "C07": {
        "rule": "group direct: interpreter.Reconcile called on generated sender/receiver lists (names a,b,c / x,y,a,<kept>; lengths 0..4; amounts 1..9 and big); thorough adds the exhaustive small scope (senders <=3 over 2 names x amounts 1..3, receivers <=2 over 2 names + kept x amounts 1..3). group sends: single-send scripts from the grammar-complete generator run through numscript.Parse(..).Run. Non-trivial: at least one sender and one receiver reach the reconciler; distinct by hash of the Coq case term.",
        "assumptions": ["the unit-expansion pairing (coq/Spec/Pairing.v) is what 'first-come-first-served' means",
                        "the judge uses the interval-overlap closed form flow_iv of the pairing (Spec/Pairing.v)"],
        "trusted_base": [INTERP_MODELLED],
    },
}
