#!/usr/bin/env python3
"""Runs registered checks against seeded changes: applies seeded/<id>/patch.diff to /repo, runs
./check <property>, undoes the change. Usage: tools/seedtest.py [seed ...] [--props C01,C02] [--tier quick]"""
import subprocess, sys, os, glob, json, re
ROOT = os.path.dirname(os.path.dirname(os.path.abspath(__file__)))
REPO = os.environ.get("VERIF_REPO", "/repo")   # a scratch worktree can stand in for /repo (the check honours the same variable)
args = [a for a in sys.argv[1:] if not a.startswith("--")]
props = None
tier = "quick"
for i, a in enumerate(sys.argv):
    if a == "--props":
        props = sys.argv[i + 1].split(",")
    if a == "--tier":
        tier = sys.argv[i + 1]
args = [a for a in args if a not in (",".join(props or []), tier)]
seeds = args or sorted(os.path.basename(d) for d in glob.glob(os.path.join(ROOT, "seeded", "C*")))
res = {}
for sd in seeds:
    patch = os.path.join(ROOT, "seeded", sd, "patch.diff")
    pl = props or [sd[:3]]
    assert subprocess.run(["git", "-C", REPO, "status", "--porcelain"], capture_output=True, text=True).stdout.strip() == "", "/repo not clean"
    subprocess.run(["git", "-C", REPO, "apply", patch], check=True)
    try:
        for p in pl:
            # evidence files must come from clean-tree runs: keep the current one aside
            ev = os.path.join(ROOT, "evidence", p + ".json")
            saved = open(ev).read() if os.path.exists(ev) else None
            o = subprocess.run([os.path.join(ROOT, "check"), p, "--tier", tier], capture_output=True, text=True, cwd=ROOT)
            if saved is not None:
                open(ev, "w").write(saved)
            viol = [l for l in o.stdout.splitlines() if l.startswith("VIOLATION")]
            summ = [l for l in o.stdout.splitlines() if l.startswith(p + " tier")]
            kind = "MISSED"
            if viol:
                kind = "no-failing-input" if all("no-failing-input-found" in v for v in viol) else "CAUGHT"
            res[(sd, p)] = kind
            print("%-6s %-4s %-18s rc=%d %s" % (sd, p, kind, o.returncode, summ[0] if summ else o.stdout[-300:]), flush=True)
    finally:
        subprocess.run(["git", "-C", REPO, "checkout", "--", "."], check=True)
