#!/usr/bin/env python3
"""Reduce a recorded failing case: tools/shrink.py <replay.json> [-o OUT]

Takes a replay file written by ./check (a case with its script text, variables, ledger and metadata),
and greedily removes lines of the script, accounts / assets of the ledger and metadata entries as long as
`./check <property> --replay <candidate>` still reports what the original reported (a property failure, or -
for a replay of the no-failing-input-found kind - a disagreement between model and implementation).
Every candidate is judged by the same Coq evaluation as the original (≈3 s each); the result is written next to
the input as <name>.min.json and can itself be replayed. Works for the cases that are replayed from their
recorded text (the interpreter profiles C01-C08, C10, C12, C17, C20); a replay that is regenerated from a
generator seed is left as it is. Honours VERIF_REPO like ./check."""
import copy
import json
import os
import re
import subprocess
import sys

ROOT = os.path.dirname(os.path.dirname(os.path.abspath(__file__)))


def judge(pid, payload, path, want):
    with open(path, "w") as fh:
        json.dump(payload, fh, indent=1, ensure_ascii=False)
    p = subprocess.run([os.path.join(ROOT, "check"), pid, "--replay", path], stdout=subprocess.PIPE,
                       stderr=subprocess.STDOUT, text=True, cwd=ROOT)
    m = re.search(r"(\d+) cases .*?(\d+) disagreements, (\d+) property failures", p.stdout)
    if not m or int(m.group(1)) < 1:
        return False
    dis, fails = int(m.group(2)), int(m.group(3))
    return fails >= 1 if want == "prop" else (dis >= 1 or fails >= 1)


def candidates(case):
    """smaller variants of the case, most aggressive first"""
    lines = case.get("text", "").split("\n")
    if len(lines) > 1:
        for i in range(len(lines) - 1, -1, -1):
            c = copy.deepcopy(case)
            c["text"] = "\n".join(lines[:i] + lines[i + 1:])
            ex = c.get("extra") or {}
            ex.pop("expected_tree", None)
            ex.pop("expected_trees", None)
            yield "line %d" % i, c
    for field in ("balances", "meta"):
        for a in sorted(case.get(field) or {}):
            c = copy.deepcopy(case)
            del c[field][a]
            yield "%s of %s" % (field, a), c
        for a in sorted(case.get(field) or {}):
            if len(case[field][a]) > 1:
                for k in sorted(case[field][a]):
                    c = copy.deepcopy(case)
                    del c[field][a][k]
                    yield "%s of %s/%s" % (field, a, k), c


def main():
    args = sys.argv[1:]
    if not args or args[0] in ("-h", "--help"):
        print(__doc__)
        return 2
    src = os.path.abspath(args[0])
    out = os.path.abspath(args[args.index("-o") + 1]) if "-o" in args else re.sub(r"\.json$", "", src) + ".min.json"
    payload = json.load(open(src))
    pid, case = payload.get("property"), payload.get("case")
    want = "prop"
    if case is None and "what_no_longer_checks" in payload:
        case = payload["what_no_longer_checks"].get("first_disagreeing_case")
        want = "agree"
    if not pid or not case or "text" not in case:
        print("nothing to reduce in %s (no recorded case with a text)" % src)
        return 2
    tmp = os.path.join(ROOT, "_work", pid, "shrink_candidate.json")
    os.makedirs(os.path.dirname(tmp), exist_ok=True)
    wrap = lambda c: {"property": pid, "kind": payload.get("kind"), "case": c}
    if not judge(pid, wrap(case), tmp, want):
        print("the recorded case does not reproduce on this tree (or is regenerated from a seed): left as it is")
        return 1
    tried = kept = 0
    progress = True
    while progress:
        progress = False
        for what, cand in candidates(case):
            tried += 1
            if judge(pid, wrap(cand), tmp, want):
                case, kept, progress = cand, kept + 1, True
                print("  removed %s" % what)
                break
    payload = dict(payload)
    payload.pop("what_no_longer_checks", None)
    payload["case"] = case
    payload["reduced_from"] = os.path.relpath(src, ROOT)
    with open(out, "w") as fh:
        json.dump(payload, fh, indent=1, ensure_ascii=False)
    os.remove(tmp)
    print("%d candidates judged, %d reductions kept: %s" % (tried, kept, os.path.relpath(out, ROOT)))
    print(case["text"])
    return 0


if __name__ == "__main__":
    sys.exit(main())
