#!/usr/bin/env python3
"""Development helper: evaluate the case files of a directory and summarise verdicts."""
import sys, json, glob, subprocess, re, os, concurrent.futures, collections
d = sys.argv[1]
meta = json.load(open(os.path.join(d, "cases.json")))
shards = sorted(glob.glob(os.path.join(d, "cases_*.v")))
def run(p):
    o = subprocess.run(["coqc", "-Q", "/verif/coq", "NS", os.path.basename(p)], cwd=d, capture_output=True, text=True)
    m = re.search(r'verdicts\s*=\s*"([a-h]*)"', o.stdout, flags=re.S)
    return p, (m.group(1) if m else None), o.stdout[-2000:] + o.stderr[-2000:]
cnt = collections.Counter()
bad = []
with concurrent.futures.ThreadPoolExecutor(16) as ex:
    for (p, v, out), idx in zip(ex.map(run, shards), meta["shard_cases"]):
        if v is None:
            print("ERROR", p, out); continue
        for i, ch in zip(idx, v):
            b = ord(ch) - 97
            key = ("agree" if b & 1 else "DIFFER") + "/" + ("prop" if b & 2 else "PROPFAIL") + "/" + ("nontriv" if b & 4 else "trivial")
            cnt[key] += 1
            if not (b & 1) or not (b & 2):
                bad.append((meta["cases"][i], key))
print(dict(cnt))
print({k: v for k, v in meta["stats"].items()})
for ci, key in bad[: int(sys.argv[2]) if len(sys.argv) > 2 else 5]:
    print("----", key, ci.get("store"), "fail_at", ci.get("fail_at"), "flag", ci.get("flag"))
    print(ci.get("text") or ci.get("extra"))
    print("vars", ci.get("vars"), "bal", ci.get("balances"), "meta", ci.get("meta"))
    print("=>", ci["observed"])
